package hx

import (
	"testing"
	"time"

	rc "github.com/frankkopp/FrankyGo/verifharness/refchess"
)

// The pool is what its comment says: every entry is a legal position whose legal moves are all of the
// motif's kind, and the predecessor (when present) leads to it by the recorded move.
func TestForcedPool(t *testing.T) {
	t0 := time.Now()
	pool := ForcedPool()
	t.Logf("pool of %d built in %v", len(pool), time.Since(t0))
	count := map[string]int{}
	preds := map[string]int{}
	for _, c := range pool {
		p, err := rc.ParseFEN(c.Fen)
		if err != nil || p.Validate() != nil {
			t.Fatalf("invalid pool position %s", c.Fen)
		}
		l := p.Legal()
		if len(l) == 0 {
			t.Fatalf("%s: no legal move", c.Fen)
		}
		for _, m := range l {
			switch c.Motif {
			case "ep-evasion":
				if m.Kind != rc.EnPassant || !p.InCheck(p.White) {
					t.Fatalf("%s: %s", c.Fen, m)
				}
			case "double-push-interposition":
				if d := m.From - m.To; (d != 16 && d != -16) || rc.Upper(p.B[m.From]) != 'P' || !p.InCheck(p.White) {
					t.Fatalf("%s: %s", c.Fen, m)
				}
			case "promotion-only":
				if m.Kind != rc.Promotion {
					t.Fatalf("%s: %s", c.Fen, m)
				}
			case "pinned-piece-moves-only":
				if m.From != l[0].From || p.InCheck(p.White) {
					t.Fatalf("%s: %s", c.Fen, m)
				}
			default:
				if len(l) > 2 {
					t.Fatalf("%s: %d moves", c.Fen, len(l))
				}
			}
		}
		count[c.Motif]++
		if c.Pred != "" {
			q := rc.MustParse(c.Pred)
			m, ok := q.FindUCI(c.Move)
			if !ok || q.Validate() != nil {
				t.Fatalf("bad predecessor %s %s", c.Pred, c.Move)
			}
			n := q.Make(m)
			if n.FEN4() != p.FEN4() {
				t.Fatalf("predecessor %s + %s = %s, want %s", c.Pred, c.Move, n.FEN4(), p.FEN4())
			}
			preds[c.Motif]++
		}
	}
	t.Logf("motifs %v, with predecessor %v", count, preds)
	for _, m := range []string{"ep-evasion", "double-push-interposition", "promotion-only", "few-replies-in-check", "few-moves-quiet", "pinned-piece-moves-only"} {
		if count[m] < 20 {
			t.Fatalf("motif %s has only %d entries", m, count[m])
		}
	}
}
