package hx

import (
	"sort"
	"sync"

	rc "github.com/frankkopp/FrankyGo/verifharness/refchess"
	"pgregory.net/rapid"
)

// Forced-reply positions.
//
// Random play and random piece placement practically never produce a position whose ONLY legal moves are of
// one special kind (an en-passant capture of a checking pawn, a double pawn step that interposes, a promotion),
// yet exactly there a generator / legality / "has a legal move" slip turns into a wrong mate or stalemate
// verdict.  This file constructs such positions: a motif core (the pieces that make the special move the
// answer to a check) plus a random fill of blockers and attackers, kept when the reference rules say that
// every legal move is of the motif's kind.  The pool is a pure function of a fixed PRNG seed (built once per
// process); generators pick from it with rapid draws, so shrinking and replay work as for the seed corpus.

// ForcedCase is one pool entry.
type ForcedCase struct {
	Motif string // ep-evasion, double-push-interposition, promotion-only, few-replies-in-check, few-moves-quiet, pinned-piece-moves-only
	Fen   string // the forced-reply position
	Pred  string // a position one ply earlier ("" if none was found)
	Move  string // the move leading from Pred to Fen
}

type xrng struct{ s uint64 }

func (r *xrng) next() uint64 {
	r.s += 0x9E3779B97F4A7C15
	z := r.s
	z = (z ^ (z >> 30)) * 0xBF58476D1CE4E5B9
	z = (z ^ (z >> 27)) * 0x94D049BB133111EB
	return z ^ (z >> 31)
}
func (r *xrng) n(n int) int { return int(r.next() % uint64(n)) }

var (
	forcedOnce sync.Once
	forcedPool []ForcedCase
)

// ForcedPool returns the pool (built on first use).
func ForcedPool() []ForcedCase {
	forcedOnce.Do(func() { forcedPool = buildForcedPool(20261001, 40) })
	return forcedPool
}

// GenForced draws a pool entry.
func GenForced(t *rapid.T) ForcedCase {
	p := ForcedPool()
	return p[rapid.IntRange(0, len(p)-1).Draw(t, "forced")]
}

func neighbours(sq int) []int {
	var out []int
	for df := -1; df <= 1; df++ {
		for dr := -1; dr <= 1; dr++ {
			f, r := rc.FileOf(sq)+df, rc.RankOf(sq)+dr
			if (df != 0 || dr != 0) && f >= 0 && f < 8 && r >= 0 && r < 8 {
				out = append(out, rc.Sq(f, r))
			}
		}
	}
	return out
}

// fill adds a white king, white attackers and black blockers (blockers preferably next to the black king).
func fill(r *xrng, p *rc.Pos, reserved map[int]bool) bool {
	bk := p.KingSq(false)
	empty := func(sq int) bool { return p.B[sq] == 0 && !reserved[sq] }
	// white king somewhere not adjacent to the black king
	if p.KingSq(true) < 0 {
		for tries := 0; ; tries++ {
			sq := r.n(64)
			df, dr := rc.FileOf(sq)-rc.FileOf(bk), rc.RankOf(sq)-rc.RankOf(bk)
			if empty(sq) && (df < -1 || df > 1 || dr < -1 || dr > 1) {
				p.B[sq] = 'K'
				break
			}
			if tries > 200 {
				return false
			}
		}
	}
	nb := neighbours(bk)
	for i := r.n(5); i > 0; i-- { // black blockers
		sq := nb[r.n(len(nb))]
		if r.n(4) == 0 {
			sq = r.n(64)
		}
		if !empty(sq) {
			continue
		}
		pc := "pppnbr"[r.n(6)]
		if pc == 'p' && (rc.RankOf(sq) == 0 || rc.RankOf(sq) == 7) {
			pc = 'n'
		}
		p.B[sq] = pc
	}
	for i := 1 + r.n(4); i > 0; i-- { // white attackers
		sq := r.n(64)
		if !empty(sq) {
			continue
		}
		pc := "QRRBBNNP"[r.n(8)]
		if pc == 'P' && (rc.RankOf(sq) == 0 || rc.RankOf(sq) == 7) {
			pc = 'N'
		}
		p.B[sq] = pc
	}
	return true
}

func allOfKind(p *rc.Pos, legal []rc.Move, ok func(m rc.Move) bool) bool {
	if len(legal) == 0 {
		return false
	}
	for _, m := range legal {
		if !ok(m) {
			return false
		}
	}
	return true
}

// predecessor finds a position one ply earlier: a non-capturing move of a white piece taken back.
func predecessor(r *xrng, c *rc.Pos) (string, string) {
	if c.White {
		return "", ""
	}
	type cand struct{ from, to int }
	var cands []cand
	for to, pc := range c.B {
		if pc == 0 || !rc.IsWhite(pc) {
			continue
		}
		switch pc {
		case 'P':
			if rc.RankOf(to) >= 2 && c.B[to-8] == 0 {
				cands = append(cands, cand{to - 8, to})
				if rc.RankOf(to) == 3 && c.B[to-16] == 0 {
					cands = append(cands, cand{to - 16, to})
				}
			}
		case 'N':
			for _, d := range [][2]int{{1, 2}, {2, 1}, {-1, 2}, {-2, 1}, {1, -2}, {2, -1}, {-1, -2}, {-2, -1}} {
				f, rk := rc.FileOf(to)+d[0], rc.RankOf(to)+d[1]
				if f >= 0 && f < 8 && rk >= 0 && rk < 8 && c.B[rc.Sq(f, rk)] == 0 {
					cands = append(cands, cand{rc.Sq(f, rk), to})
				}
			}
		default:
			dirs := [][2]int{}
			if pc == 'R' || pc == 'Q' || pc == 'K' {
				dirs = append(dirs, [][2]int{{1, 0}, {-1, 0}, {0, 1}, {0, -1}}...)
			}
			if pc == 'B' || pc == 'Q' || pc == 'K' {
				dirs = append(dirs, [][2]int{{1, 1}, {-1, 1}, {1, -1}, {-1, -1}}...)
			}
			for _, d := range dirs {
				f, rk := rc.FileOf(to)+d[0], rc.RankOf(to)+d[1]
				for f >= 0 && f < 8 && rk >= 0 && rk < 8 && c.B[rc.Sq(f, rk)] == 0 {
					cands = append(cands, cand{rc.Sq(f, rk), to})
					if pc == 'K' {
						break
					}
					f, rk = f+d[0], rk+d[1]
				}
			}
		}
	}
	for i := len(cands) - 1; i > 0; i-- {
		j := r.n(i + 1)
		cands[i], cands[j] = cands[j], cands[i]
	}
	want := c.FEN4()
	for _, cd := range cands {
		q := *c
		q.B[cd.from], q.B[cd.to] = q.B[cd.to], 0
		q.White = true
		q.EP = -1
		q.Castle = [4]bool{}
		q.Half, q.Full = 0, 1
		if q.Validate() != nil {
			continue
		}
		for _, m := range q.Legal() {
			if m.From == cd.from && m.To == cd.to && m.Kind != rc.Promotion {
				n := q.Make(m)
				if n.FEN4() == want {
					return q.FEN(), m.UCI(true)
				}
			}
		}
	}
	return "", ""
}

func buildForcedPool(seed uint64, perMotif int) []ForcedCase {
	r := &xrng{seed}
	var pool []ForcedCase
	seen := map[string]bool{}
	add := func(motif string, p rc.Pos) bool {
		if p.Validate() != nil {
			return false
		}
		f := p.FEN()
		if seen[f] {
			return false
		}
		seen[f] = true
		pred, mv := predecessor(r, &p)
		pool = append(pool, ForcedCase{Motif: motif, Fen: f, Pred: pred, Move: mv})
		// the colour-mirrored twin
		m := p.Mirror()
		fc := ForcedCase{Motif: motif, Fen: m.FEN()}
		if pred != "" {
			pp := rc.MustParse(pred)
			pm := pp.Mirror()
			if mm, ok := pp.FindUCI(mv); ok {
				fc.Pred, fc.Move = pm.FEN(), rc.MirrorMove(mm).UCI(true)
			}
		}
		pool = append(pool, fc)
		return true
	}
	base := func() rc.Pos {
		var p rc.Pos
		p.EP = -1
		p.Full = 1
		return p
	}
	// A: the only legal replies to a pawn's double-step check are en-passant captures
	for n, tries := 0, 0; n < perMotif && tries < 400000; tries++ {
		p := base()
		pf := r.n(8)
		kf := pf + 1 - 2*r.n(2)
		cf := pf + 1 - 2*r.n(2)
		if kf < 0 || kf > 7 || cf < 0 || cf > 7 {
			continue
		}
		p.B[rc.Sq(pf, 3)] = 'P'
		p.B[rc.Sq(kf, 4)] = 'k'
		p.B[rc.Sq(cf, 3)] = 'p'
		p.EP = rc.Sq(pf, 2)
		res := map[int]bool{rc.Sq(pf, 2): true, rc.Sq(pf, 1): true}
		if !fill(r, &p, res) || p.Validate() != nil {
			continue
		}
		if allOfKind(&p, p.Legal(), func(m rc.Move) bool { return m.Kind == rc.EnPassant }) && add("ep-evasion", p) {
			n++
		}
	}
	// B: the only legal replies to a slider's check are double pawn steps that interpose
	for n, tries := 0, 0; n < perMotif && tries < 400000; tries++ {
		p := base()
		f := 1 + r.n(6)
		p.B[rc.Sq(f, 6)] = 'p'
		res := map[int]bool{rc.Sq(f, 5): true, rc.Sq(f, 4): true}
		if r.n(2) == 0 { // along the rank
			kf, sf := r.n(f), f+1+r.n(7-f)
			if r.n(2) == 0 {
				kf, sf = sf, kf
			}
			p.B[rc.Sq(kf, 4)] = 'k'
			p.B[rc.Sq(sf, 4)] = "RQ"[r.n(2)]
			lo, hi := kf, sf
			if lo > hi {
				lo, hi = hi, lo
			}
			for x := lo + 1; x < hi; x++ {
				res[rc.Sq(x, 4)] = true
			}
		} else { // along a diagonal through (f,4)
			d := 1 - 2*r.n(2)
			a, b := 1+r.n(3), 1+r.n(3)
			k, s := [2]int{f - a, 4 - a*d}, [2]int{f + b, 4 + b*d}
			if r.n(2) == 0 {
				k, s = s, k
			}
			if k[0] < 0 || k[0] > 7 || k[1] < 0 || k[1] > 7 || s[0] < 0 || s[0] > 7 || s[1] < 0 || s[1] > 7 {
				continue
			}
			p.B[rc.Sq(k[0], k[1])] = 'k'
			p.B[rc.Sq(s[0], s[1])] = "BQ"[r.n(2)]
			for i := 1; i < a+b; i++ {
				x, y := k[0]+i*sign(s[0]-k[0]), k[1]+i*sign(s[1]-k[1])
				res[rc.Sq(x, y)] = true
			}
		}
		if p.B[rc.Sq(f, 6)] != 'p' {
			continue
		}
		if !fill(r, &p, res) || p.Validate() != nil {
			continue
		}
		if allOfKind(&p, p.Legal(), func(m rc.Move) bool {
			return rc.Upper(p.B[m.From]) == 'P' && m.Kind == rc.Normal && m.From-m.To == 16
		}) && add("double-push-interposition", p) {
			n++
		}
	}
	// C: every legal move is a promotion
	for n, tries := 0, 0; n < perMotif && tries < 400000; tries++ {
		p := base()
		p.B[rc.Sq(r.n(8), 1)] = 'p'
		p.B[r.n(64)] = 'k'
		if p.KingSq(false) < 0 {
			continue
		}
		if !fill(r, &p, map[int]bool{}) || p.Validate() != nil {
			continue
		}
		if allOfKind(&p, p.Legal(), func(m rc.Move) bool { return m.Kind == rc.Promotion }) && add("promotion-only", p) {
			n++
		}
	}
	// D/E: any position with at most two legal moves (in check / not in check)
	for nd, ne, tries := 0, 0, 0; (nd < perMotif || ne < perMotif) && tries < 400000; tries++ {
		p := base()
		p.B[r.n(64)] = 'k'
		if !fill(r, &p, map[int]bool{}) || p.Validate() != nil {
			continue
		}
		l := p.Legal()
		if len(l) == 0 || len(l) > 2 {
			continue
		}
		if p.InCheck(false) && nd < perMotif {
			if add("few-replies-in-check", p) {
				nd++
			}
		} else if !p.InCheck(false) && ne < perMotif {
			if add("few-moves-quiet", p) {
				ne++
			}
		}
	}
	// F: not in check, the king cannot move and every legal move is a move of ONE piece that is pinned to the
	// king (a pawn pushed along the file it is pinned on, a slider moving along the pin line / capturing the pinner)
	dirs := [][2]int{{0, 1}, {0, -1}, {1, 0}, {-1, 0}, {1, 1}, {1, -1}, {-1, 1}, {-1, -1}}
	for n, tries := 0, 0; n < perMotif && tries < 600000; tries++ {
		p := base()
		bk := r.n(64)
		p.B[bk] = 'k'
		d := dirs[r.n(8)]
		orth := d[0] == 0 || d[1] == 0
		at := func(k int) int {
			f, rk := rc.FileOf(bk)+k*d[0], rc.RankOf(bk)+k*d[1]
			if f < 0 || f > 7 || rk < 0 || rk > 7 {
				return -1
			}
			return rc.Sq(f, rk)
		}
		k1 := 1 + r.n(3)
		k2 := k1 + 1 + r.n(4)
		x, y := at(k1), at(k2)
		if x < 0 || y < 0 {
			continue
		}
		pinned := "prq"[r.n(3)]
		pinner := "RQ"[r.n(2)]
		if !orth {
			pinned = "bq"[r.n(2)]
			pinner = "BQ"[r.n(2)]
		}
		if pinned == 'p' && (d[0] != 0 || rc.RankOf(x) == 0 || rc.RankOf(x) == 7) {
			continue // a pawn only moves along a file pin
		}
		p.B[x], p.B[y] = pinned, pinner
		reserved := map[int]bool{}
		for k := 1; k < k2; k++ {
			reserved[at(k)] = true // the pin line stays open
		}
		if !fill(r, &p, reserved) || p.Validate() != nil || p.InCheck(false) {
			continue
		}
		if allOfKind(&p, p.Legal(), func(m rc.Move) bool { return m.From == x }) && add("pinned-piece-moves-only", p) {
			n++
		}
	}
	sort.SliceStable(pool, func(i, j int) bool { return pool[i].Motif < pool[j].Motif })
	return pool
}

func sign(x int) int {
	switch {
	case x > 0:
		return 1
	case x < 0:
		return -1
	}
	return 0
}
