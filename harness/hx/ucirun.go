package hx

import (
	"bufio"
	"os"
	"runtime/debug"
	"strings"
	"sync"
	"time"

	"github.com/frankkopp/FrankyGo/internal/uci"
)

// OutLine is one line the engine wrote, with its arrival time.
type OutLine struct {
	At   time.Time
	Text string
}

// UciSession runs the real UciHandler.Loop() on OS pipes.
type UciSession struct {
	H        *uci.UciHandler
	inW      *os.File
	inR      *os.File
	outR     *os.File
	outW     *os.File
	mu       sync.Mutex
	lines    []OutLine
	cond     *sync.Cond
	loopDone chan struct{}
	readDone chan struct{}
	Panic    any
	Stack    string
}

// StartUci creates a handler and starts its loop.
func StartUci() *UciSession {
	s := &UciSession{loopDone: make(chan struct{}), readDone: make(chan struct{})}
	s.cond = sync.NewCond(&s.mu)
	var err error
	if s.inR, s.inW, err = os.Pipe(); err != nil {
		panic(err)
	}
	if s.outR, s.outW, err = os.Pipe(); err != nil {
		panic(err)
	}
	// the handler creates its input scanner on os.Stdin: give it our pipe as stdin so that the
	// engine's own scanner configuration (buffer sizes) is the one under test
	oldStdin := os.Stdin
	os.Stdin = s.inR
	s.H = uci.NewUciHandler()
	os.Stdin = oldStdin
	s.H.OutIo = bufio.NewWriter(s.outW)
	go func() {
		defer close(s.readDone)
		sc := bufio.NewScanner(s.outR)
		sc.Buffer(make([]byte, 1<<20), 1<<20)
		for sc.Scan() {
			s.mu.Lock()
			s.lines = append(s.lines, OutLine{time.Now(), sc.Text()})
			s.cond.Broadcast()
			s.mu.Unlock()
		}
	}()
	go func() {
		defer close(s.loopDone)
		defer func() {
			if x := recover(); x != nil {
				s.mu.Lock()
				s.Panic = x
				s.Stack = string(debugStack())
				s.cond.Broadcast()
				s.mu.Unlock()
			}
		}()
		s.H.Loop()
	}()
	return s
}

// Send writes one command line.
func (s *UciSession) Send(line string) time.Time {
	t := time.Now()
	_, _ = s.inW.WriteString(line + "\n")
	return t
}

// Lines returns a copy of the output so far.
func (s *UciSession) Lines() []OutLine {
	s.mu.Lock()
	defer s.mu.Unlock()
	return append([]OutLine{}, s.lines...)
}

// Count returns the number of output lines with the given prefix.
func (s *UciSession) Count(prefix string) int {
	n := 0
	for _, l := range s.Lines() {
		if strings.HasPrefix(l.Text, prefix) {
			n++
		}
	}
	return n
}

// WaitCount waits until at least n lines with the prefix exist (or the loop panicked).
func (s *UciSession) WaitCount(prefix string, n int, timeout time.Duration) bool {
	deadline := time.Now().Add(timeout)
	timer := time.AfterFunc(timeout, func() { s.mu.Lock(); s.cond.Broadcast(); s.mu.Unlock() })
	defer timer.Stop()
	s.mu.Lock()
	defer s.mu.Unlock()
	for {
		c := 0
		for _, l := range s.lines {
			if strings.HasPrefix(l.Text, prefix) {
				c++
			}
		}
		if c >= n {
			return true
		}
		if s.Panic != nil || time.Now().After(deadline) {
			return false
		}
		s.cond.Wait()
	}
}

// LoopPanicked reports a panic of the protocol loop goroutine.
func (s *UciSession) LoopPanicked() (any, string) {
	s.mu.Lock()
	defer s.mu.Unlock()
	return s.Panic, s.Stack
}

// Quit stops a running search and ends the loop; false if the loop does not end in time.
func (s *UciSession) Quit(timeout time.Duration) bool {
	if p, _ := s.LoopPanicked(); p == nil {
		s.Send("stop")
		s.Send("quit")
	}
	ok := true
	select {
	case <-s.loopDone:
	case <-time.After(timeout):
		ok = false
	}
	if ok {
		// make sure the search goroutine is gone before the next case starts
		_ = s.outW.Close()
		select {
		case <-s.readDone:
		case <-time.After(2 * time.Second):
		}
		_ = s.inW.Close()
		_ = s.inR.Close()
		_ = s.outR.Close()
	}
	return ok
}

func debugStack() []byte { return debug.Stack() }
