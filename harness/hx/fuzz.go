package hx

import (
	"encoding/json"
	"os"
	"strconv"
	"strings"
	"testing"

	"pgregory.net/rapid"
)

// Coverage-guided variants of the rapid properties (thorough tier): the native fuzzer mutates the bit stream
// that rapid's generators draw from (rapid.MakeFuzz), so the same generator / property pair is searched with
// coverage feedback from the engine on all cores.  A crasher file is converted back into a replayable case by
// FuzzCrasher (driver: VERIF_FUZZFILE / VERIF_FUZZTARGET).

// knownOnly is a recorder that only knows the listed known findings of a property (fuzz mode has no Rec).
func knownOnly(id string) *Rec {
	r := &Rec{ID: id, known: map[string]string{}, hits: map[string]*knownHit{}}
	r.Root = os.Getenv("VERIF_ROOT")
	if r.Root == "" {
		r.Root = "/verif"
	}
	r.loadKnown()
	return r
}

// Fuzz registers gen/prop as a native fuzz target.  inline, when not nil, receives the known-findings recorder
// so that properties which tolerate a listed finding in the middle of a case (KnownInline) keep doing so.
func Fuzz[C any](f *testing.F, id string, inline **Rec, gen func(t *rapid.T) C, prop func(c C, o *Obs) *Failure) {
	kr := knownOnly(id)
	if inline != nil {
		*inline = kr
	}
	f.Fuzz(rapid.MakeFuzz(func(t *rapid.T) {
		c := gen(t)
		fail := Guard(id+"/fuzz", func() *Failure { return prop(c, &Obs{}) })
		if fail == nil {
			return
		}
		if _, listed := kr.known[fail.Sig]; listed {
			return
		}
		b, _ := json.Marshal(c)
		t.Fatalf("%s\n%s\ncase=%s", fail.Sig, fail.Msg, b)
	}))
}

// ParseFuzzFile returns the first value of a go fuzz corpus file (string(...) or []byte(...)).
func ParseFuzzFile(path string) ([]byte, error) {
	b, err := os.ReadFile(path)
	if err != nil {
		return nil, err
	}
	for _, line := range strings.Split(string(b), "\n") {
		line = strings.TrimSpace(line)
		for _, pre := range []string{"string(", "[]byte("} {
			if strings.HasPrefix(line, pre) && strings.HasSuffix(line, ")") {
				u, err := strconv.Unquote(line[len(pre) : len(line)-1])
				if err != nil {
					return nil, err
				}
				return []byte(u), nil
			}
		}
	}
	return nil, os.ErrInvalid
}

// FuzzCrasher re-creates the case of a rapid-based fuzz crasher (VERIF_FUZZFILE) and runs it as a one-case
// sub-check, so that it is recorded, signed and written as a replay file like every other violation.
// It returns false when the environment names no crasher for this target.
func FuzzCrasher[C any](r *Rec, target string, gen func(t *rapid.T) C, prop func(c C, o *Obs) *Failure) bool {
	ff := os.Getenv("VERIF_FUZZFILE")
	if ff == "" || os.Getenv("VERIF_FUZZTARGET") != target {
		return false
	}
	data, err := ParseFuzzFile(ff)
	if err != nil {
		r.t.Fatalf("INFRA: fuzz file %s: %v", ff, err)
	}
	var c C
	got := false
	r.t.Run("recover-case", func(t *testing.T) {
		rapid.MakeFuzz(func(rt *rapid.T) { c = gen(rt); got = true })(t, data)
	})
	if !got {
		r.t.Fatalf("INFRA: fuzz file %s does not generate a case", ff)
	}
	Enum(r, "fuzz-crasher-"+target, false, func(yield func(C) bool) { yield(c) }, prop)
	return true
}
