package hx

import (
	"math/bits"
	"strings"

	"github.com/frankkopp/FrankyGo/test/testdata"
	rc "github.com/frankkopp/FrankyGo/verifharness/refchess"
	"pgregory.net/rapid"
)

// handFENs are hand-written stress shapes for the cases named in the properties.
var handFENs = []string{
	rc.StartFEN,
	"r3k2r/p1ppqpb1/bn2pnp1/3PN3/1p2P3/2N2Q1p/PPPBBPPP/R3K2R w KQkq - 0 1",
	"8/2p5/3p4/KP5r/1R3p1k/8/4P1P1/8 w - - 0 1",
	"r3k2r/Pppp1ppp/1b3nbN/nP6/BBP1P3/q4N2/Pp1P2PP/R2Q1RK1 w kq - 0 1",
	"r2q1rk1/pP1p2pp/Q4n2/bbp1p3/Np6/1B3NBn/pPPP1PPP/R3K2R b KQ - 0 1",
	"rnbq1k1r/pp1Pbppp/2p5/8/2B5/8/PPP1NnPP/RNBQK2R w KQ - 1 8",
	"r4rk1/1pp1qppp/p1np1n2/2b1p1B1/2B1P1b1/P1NP1N2/1PP1QPPP/R4RK1 w - - 0 10",
	// ep capture exposing the own king along the rank (both colours)
	"8/8/8/K2pP2r/8/8/8/7k w - d6 0 1",
	"8/8/8/K1pP3r/8/8/8/7k w - c6 0 1",
	"7K/8/8/8/k2Pp2R/8/8/8 b - d3 0 1",
	"7K/8/8/8/k1pP3R/8/8/8 b - d3 0 1",
	"8/8/8/KPp4r/8/8/8/7k w - c6 0 1",
	// ep with diagonal pin
	"8/8/8/3pP3/8/8/1K6/6bk w - d6 0 1",
	"4k3/8/8/2KpP2r/8/8/8/8 w - d6 0 1",
	"8/2b5/8/3pP3/8/6K1/8/7k w - d6 0 1",
	"k7/8/8/8/3Pp3/8/8/4K2B b - d3 0 1",
	"6k1/8/8/3pP3/8/1B6/8/6K1 w - d6 0 1",
	// ep as the only evasion / ep capturing the checking pawn
	"8/8/8/2k5/3Pp3/8/8/4K3 b - d3 0 1",
	"8/8/3p4/1Pp4r/1K3p2/6k1/4P1P1/1R6 w - c6 0 3",
	"8/5k2/8/2Pp4/2K5/8/8/8 w - d6 0 1",
	// ep on the a- and h-files
	"4k3/8/8/pP6/8/8/8/4K3 w - a6 0 1",
	"4k3/8/8/6Pp/8/8/8/4K3 w - h6 0 1",
	"4k3/8/8/8/Pp6/8/8/4K3 b - a3 0 1",
	"4k3/8/8/8/6pP/8/8/4K3 b - h3 0 1",
	"4k3/8/8/Pp6/8/8/8/4K3 w - b6 0 1",
	"4k3/8/8/8/6Pp/8/8/4K3 b - g3 0 1",
	// castling: b1/b8 attacked only, transit squares attacked, in check, rook captured
	"r3k2r/8/8/8/8/8/8/R3K2R w KQkq - 0 1",
	"r3k2r/8/8/8/8/8/8/R3K2R b KQkq - 0 1",
	"r3k2r/8/8/8/8/8/1r6/R3K2R w KQkq - 0 1",
	"r3k2r/1R6/8/8/8/8/8/R3K2R b KQkq - 0 1",
	"r3k2r/8/8/8/8/8/5r2/R3K2R w KQkq - 0 1",
	"r3k2r/8/8/8/8/8/3r4/R3K2R w KQkq - 0 1",
	"r3k2r/8/8/8/8/8/6r1/R3K2R w KQkq - 0 1",
	"r3k2r/8/8/8/8/8/2r5/R3K2R w KQkq - 0 1",
	"r3k2r/8/8/8/8/8/4r3/R3K2R w KQkq - 0 1",
	"r3k2r/8/8/8/8/5n2/8/R3K2R w KQkq - 0 1",
	"r3k2r/8/8/8/8/8/6p1/R3K2R w KQkq - 0 1",
	"r3k2r/8/8/8/8/8/1p6/R3K2R w KQkq - 0 1",
	"r3k2r/6P1/8/8/8/8/8/R3K2R b KQkq - 0 1",
	"r3k2r/1P6/8/8/8/8/8/R3K2R b KQkq - 0 1",
	"r3k2r/8/8/8/8/8/8/R3K2R w Kq - 0 1",
	"r3k2r/8/8/8/8/8/8/R3K2R w Qk - 0 1",
	"r3k2r/8/8/8/8/8/8/4K2R w Kkq - 0 1",
	"4k3/8/8/8/8/8/8/R3K2R w KQ - 0 1",
	"r3k2r/8/8/8/8/8/8/R3K2R w - - 0 1",
	"rn2k2r/8/8/8/8/8/8/RN2K1NR w KQkq - 0 1",
	// rook captured on its home square, promotion-capture on corner with rights present
	"r3k2r/8/8/8/8/8/6b1/R3K2R b KQkq - 0 1",
	"r3k2r/8/8/8/4B3/8/8/R3K2R w KQkq - 0 1",
	"r3k2r/1P4P1/8/8/8/8/1p4p1/R3K2R w KQkq - 0 1",
	"r3k2r/1P4P1/8/8/8/8/1p4p1/R3K2R b KQkq - 0 1",
	"rn2k1nr/1P4P1/8/8/8/8/1p4p1/RN2K1NR w KQkq - 0 1",
	// double checks by discovery, under-promotion-only evasions
	"4k3/8/8/8/8/4N3/8/4RK2 w - - 0 1",
	"4k3/6N1/5b2/4R3/8/8/8/4K3 b - - 0 1",
	"r3k3/8/8/8/8/8/3n4/R3K2b w Q - 0 1",
	"8/8/8/8/8/6k1/4Kp2/5N1r b - - 0 1",
	"7k/5P2/6K1/8/8/8/8/8 w - - 0 1",
	"k7/2P5/1K6/8/8/8/8/8 w - - 0 1",
	"8/P7/8/8/8/5k2/5p2/5K2 w - - 0 1",
	"6bk/5p1p/5P1P/8/8/8/8/K7 b - - 0 1",
	"5k2/5P2/5K2/8/8/8/8/8 b - - 0 1",
	"7k/5Q2/6K1/8/8/8/8/8 b - - 0 1",
	"7k/6Q1/6K1/8/8/8/8/8 b - - 0 1",
	"R6k/6pp/8/8/8/8/8/6K1 b - - 0 1",
	"6k1/5ppp/8/8/8/8/8/R5K1 w - - 0 1",
	"6k1/5ppp/8/8/8/8/1r6/R5K1 w - - 0 1",
	// mate / stalemate nets and small endgames
	"8/8/8/8/8/5k2/8/4K2R w - - 0 1",
	"8/8/8/4k3/8/8/8/KBN5 w - - 0 1",
	"8/8/8/4k3/8/8/8/KQ6 w - - 0 1",
	"8/8/8/4k3/8/8/8/KNN5 w - - 0 1",
	"8/8/8/4k3/8/8/8/KB6 w - - 0 1",
	"8/8/8/4k3/8/8/8/KBB5 w - - 0 1",
	"8/8/4k3/8/8/8/8/K7 w - - 0 1",
	"8/8/4k3/8/8/8/8/KN6 b - - 0 1",
	"8/8/4kb2/8/8/8/8/KB6 b - - 0 1",
	"8/8/4k1b1/8/8/8/8/KB6 b - - 0 1",
	"8/8/8/3k4/8/3K4/3P4/8 w - - 0 1",
	"8/3k4/8/3K4/3P4/8/8/8 w - - 0 1",
	"8/8/8/1k6/8/1K6/1P6/8 b - - 0 1",
	// blocked pawn endgames
	"8/8/1p1p1p2/pPpPpPp1/P1P1P1P1/8/4K3/4k3 w - - 0 1",
	"4k3/8/8/p1p1p1p1/P1P1P1P1/8/8/4K3 w - - 0 1",
	"8/1k4b1/8/1p3p1P/1P3B2/5K2/8/n5r1 w - - 6 78",
	// half-move clocks 95-100, black-to-move with odd numbers
	"8/8/8/4k3/8/8/8/KR6 w - - 95 80",
	"8/8/8/4k3/8/8/8/KR6 b - - 97 80",
	"8/8/8/4k3/8/8/8/KR6 w - - 99 80",
	"r3k2r/8/8/8/8/8/8/R3K2R b KQkq - 98 61",
	"rnbqkbnr/pppppppp/8/8/4P3/8/PPPP1PPP/RNBQKBNR b KQkq e3 0 1",
	"rnbqkbnr/ppp1pppp/8/3p4/4P3/8/PPPP1PPP/RNBQKBNR w KQkq d6 0 2",
	"rnbqkbnr/pPpppppp/8/8/8/8/P1PPPPPP/RNBQKBNR w KQkq - 0 1",
	"rnbqkbnr/p1pppppp/8/8/8/8/PpPPPPPP/RNBQKBNR b KQkq - 0 1",
	// many promotions available / several queens
	"1n2k1n1/P1P2P1P/8/8/8/8/p1p2p1p/1N2K1N1 w - - 0 1",
	"1n2k1n1/P1P2P1P/8/8/8/8/p1p2p1p/1N2K1N1 b - - 0 1",
	"QQQ1k3/8/8/8/8/8/8/qqq1K3 w - - 0 1",
	"4k3/8/8/8/8/2N1N3/1N3N2/4K3 w - - 0 1",
	"3k4/8/8/2R1R3/8/2R1R3/8/3K4 w - - 0 1",
	"3k4/8/8/2Q1Q3/8/2Q1Q3/8/3K4 w - - 0 1",
	"3k4/2n1n3/1n3n2/8/1n3n2/2n1n3/8/3K4 b - - 0 1",
}

// SeedFENs is the validated seed corpus.
var SeedFENs []string

func init() {
	seen := map[string]bool{}
	add := func(f string) {
		p, err := rc.ParseFEN(f)
		if err != nil || p.Validate() != nil {
			return
		}
		s := p.FEN()
		if !seen[s] {
			seen[s] = true
			SeedFENs = append(SeedFENs, s)
		}
	}
	for _, f := range handFENs {
		add(f)
	}
	for _, f := range testdata.Fens {
		add(f)
	}
	// constructed forced-reply positions (see forced.go): the only legal moves are en-passant evasions,
	// interposing double pawn steps, promotions, or there are at most two legal moves at all
	for _, fc := range ForcedPool() {
		add(fc.Fen)
	}
}

// GenSeedFEN draws a FEN of the seed corpus.
func GenSeedFEN(t *rapid.T) string {
	return SeedFENs[rapid.IntRange(0, len(SeedFENs)-1).Draw(t, "seed")]
}

const pieceLetters = "PNBRQ"

// GenConstructed constructs a legal position (no rejection): kings first, then
// up to maxPieces drawn pieces, side to move fixed up so that the side not to move
// is not in check, consistent castling rights and en-passant target.
func GenConstructed(t *rapid.T, maxPieces int) rc.Pos {
	var p rc.Pos
	p.EP = -1
	wk := rapid.IntRange(0, 63).Draw(t, "wk")
	// with some probability put kings on home squares so that castling rights can exist
	home := rapid.IntRange(0, 3).Draw(t, "kingsHome")
	if home&1 == 1 {
		wk = 4
	}
	p.B[wk] = 'K'
	var free []int
	for sq := 0; sq < 64; sq++ {
		df, dr := rc.FileOf(sq)-rc.FileOf(wk), rc.RankOf(sq)-rc.RankOf(wk)
		if df >= -1 && df <= 1 && dr >= -1 && dr <= 1 {
			continue
		}
		free = append(free, sq)
	}
	bk := free[rapid.IntRange(0, len(free)-1).Draw(t, "bk")]
	if home&2 == 2 {
		for _, f := range free {
			if f == 60 {
				bk = 60
			}
		}
	}
	p.B[bk] = 'k'
	n := rapid.IntRange(0, maxPieces).Draw(t, "n")
	cnt := map[byte]int{}
	for i := 0; i < n; i++ {
		white := rapid.Bool().Draw(t, "white")
		// allowed piece types for this side (material reachable by promotion)
		pawn, kn, bi, ro, qu := cnt[col('P', white)], cnt[col('N', white)], cnt[col('B', white)], cnt[col('R', white)], cnt[col('Q', white)]
		excess := max0(kn-2) + max0(bi-2) + max0(ro-2) + max0(qu-1)
		var allowed []byte
		if pawn < 8 && excess <= 8-(pawn+1) {
			allowed = append(allowed, 'P', 'P') // pawns twice as likely
		}
		for _, pt := range []byte{'N', 'B', 'R', 'Q'} {
			c := cnt[col(pt, white)]
			lim := 2
			if pt == 'Q' {
				lim = 1
			}
			if c < lim || excess+1 <= 8-pawn {
				allowed = append(allowed, pt)
			}
		}
		if len(allowed) == 0 {
			continue
		}
		pt := allowed[rapid.IntRange(0, len(allowed)-1).Draw(t, "pt")]
		var sqs []int
		for sq := 0; sq < 64; sq++ {
			if p.B[sq] != 0 {
				continue
			}
			if pt == 'P' && (rc.RankOf(sq) == 0 || rc.RankOf(sq) == 7) {
				continue
			}
			sqs = append(sqs, sq)
		}
		if len(sqs) == 0 {
			continue
		}
		// rooks are drawn onto their home squares more often (castling)
		sq := sqs[rapid.IntRange(0, len(sqs)-1).Draw(t, "sq")]
		if pt == 'R' && rapid.IntRange(0, 2).Draw(t, "rookHome") == 0 {
			homes := []int{0, 7}
			if !white {
				homes = []int{56, 63}
			}
			h := homes[rapid.IntRange(0, 1).Draw(t, "rh")]
			if p.B[h] == 0 {
				sq = h
			}
		}
		p.B[sq] = col(pt, white)
		cnt[col(pt, white)]++
	}
	p.White = rapid.Bool().Draw(t, "side")
	// the side not to move must not be in check
	if p.InCheck(!p.White) {
		if !p.InCheck(p.White) {
			p.White = !p.White
		} else {
			for p.InCheck(!p.White) {
				att := p.Attackers(p.KingSq(!p.White), p.White)
				sq := bits.TrailingZeros64(att)
				p.B[sq] = 0
			}
		}
	}
	// castling rights from the consistent subset
	cons := [4]bool{p.B[4] == 'K' && p.B[7] == 'R', p.B[4] == 'K' && p.B[0] == 'R', p.B[60] == 'k' && p.B[63] == 'r', p.B[60] == 'k' && p.B[56] == 'r'}
	for i := 0; i < 4; i++ {
		if cons[i] {
			p.Castle[i] = rapid.IntRange(0, 3).Draw(t, "right") != 0
		}
	}
	// en-passant target from the consistent squares
	var eps []int
	for f := 0; f < 8; f++ {
		if p.White {
			sq := rc.Sq(f, 5)
			if p.B[sq] == 0 && p.B[sq-8] == 'p' && p.B[sq+8] == 0 {
				eps = append(eps, sq)
			}
		} else {
			sq := rc.Sq(f, 2)
			if p.B[sq] == 0 && p.B[sq+8] == 'P' && p.B[sq-8] == 0 {
				eps = append(eps, sq)
			}
		}
	}
	if len(eps) > 0 {
		i := rapid.IntRange(-1, len(eps)-1).Draw(t, "ep")
		if i < 0 && rapid.Bool().Draw(t, "epForce") {
			i = 0
		}
		if i >= 0 {
			p.EP = eps[i]
		}
	}
	p.Half = rapid.IntRange(0, 99).Draw(t, "half")
	if p.EP >= 0 {
		p.Half = 0
	}
	p.Full = rapid.IntRange(1, 300).Draw(t, "full")
	return p
}

func col(pt byte, white bool) byte {
	if white {
		return pt
	}
	return pt + 32
}

func max0(x int) int {
	if x < 0 {
		return 0
	}
	return x
}

// Playout is a start FEN plus a list of UCI moves (lower-case promotion letters).
type Playout struct {
	Start string   `json:"start_fen"`
	Moves []string `json:"moves"`
}

// Replay re-derives the reference positions and moves of a playout.  It stops at
// the first string that is not a legal move (returns what was played so far).
func (pl Playout) Replay() (poss []rc.Pos, moves []rc.Move) {
	p, err := rc.ParseFEN(pl.Start)
	if err != nil {
		return nil, nil
	}
	poss = append(poss, p)
	for _, s := range pl.Moves {
		m, ok := p.FindUCI(s)
		if !ok {
			break
		}
		p = p.Make(m)
		poss = append(poss, p)
		moves = append(moves, m)
	}
	return
}

// PickMove draws a legal move of p with a drawn bias toward captures, checks,
// special moves (castling, ep, promotion) or reversible shuffles.
func PickMove(t *rapid.T, p *rc.Pos, legal []rc.Move, bias int) rc.Move {
	if len(legal) == 1 {
		return legal[0]
	}
	cat := 0
	if bias > 0 {
		cat = rapid.IntRange(0, 5).Draw(t, "cat")
	}
	var sub []rc.Move
	switch {
	case cat == 1: // captures
		for _, m := range legal {
			if p.IsCapture(m) {
				sub = append(sub, m)
			}
		}
	case cat == 2: // special
		for _, m := range legal {
			if m.Kind != rc.Normal || (rc.Upper(p.B[m.From]) == 'P' && absI(m.To-m.From) == 16) {
				sub = append(sub, m)
			}
		}
	case cat == 3: // checks
		for _, m := range legal {
			n := p.Make(m)
			if n.InCheck(n.White) {
				sub = append(sub, m)
			}
		}
	case cat == 4 && bias == 2: // reversible piece moves (for repetitions)
		for _, m := range legal {
			if m.Kind == rc.Normal && rc.Upper(p.B[m.From]) != 'P' && p.B[m.To] == 0 {
				sub = append(sub, m)
			}
		}
	}
	if len(sub) == 0 {
		sub = legal
	}
	return sub[rapid.IntRange(0, len(sub)-1).Draw(t, "mv")]
}

func absI(x int) int {
	if x < 0 {
		return -x
	}
	return x
}

// GenPlayoutFrom plays up to maxPlies drawn legal moves from p.
func GenPlayoutFrom(t *rapid.T, p rc.Pos, maxPlies int, bias int) Playout {
	pl := Playout{Start: p.FEN()}
	n := rapid.IntRange(0, maxPlies).Draw(t, "plies")
	var prev *rc.Move
	for i := 0; i < n; i++ {
		legal := p.Legal()
		if len(legal) == 0 {
			break
		}
		rc.SortMoves(legal)
		var m rc.Move
		// shuffle bias: undo the move before last (A-B-A-B patterns) to create repetitions
		if bias == 2 && prev != nil && rapid.IntRange(0, 2).Draw(t, "back") == 0 {
			back := rc.Move{From: prev.To, To: prev.From, Kind: rc.Normal}
			found := false
			for _, l := range legal {
				if l == back {
					found = true
				}
			}
			if found {
				m = back
			} else {
				m = PickMove(t, &p, legal, bias)
			}
		} else {
			m = PickMove(t, &p, legal, bias)
		}
		pl.Moves = append(pl.Moves, m.UCI(true))
		if len(pl.Moves) >= 2 {
			pm, _ := parseUCIShallow(pl.Moves[len(pl.Moves)-2])
			prev = &pm
		}
		p = p.Make(m)
	}
	return pl
}

// GenShuffleHistory builds a history of pure piece shuffles from p: both sides move a piece out and back
// (m1 m2 m1' m2'), `cycles` times, with the last `cut` plies left off - so that the position after the history
// is zero to three plies away from repeating an earlier one for the second or third time, at a half-move
// clock that is a small multiple of four above the start clock (the boundary cases of every repetition and
// fifty-move test).  Returns the playout and whether a shuffle exists in p.
func GenShuffleHistory(t *rapid.T, p rc.Pos, maxCycles int) (Playout, bool) {
	pl := Playout{Start: p.FEN()}
	legal := p.Legal()
	rc.SortMoves(legal)
	type quad struct{ a, b, c, d rc.Move }
	var quads []quad
	want := p.FEN4()
	for _, m1 := range legal {
		if m1.Kind != rc.Normal || rc.Upper(p.B[m1.From]) == 'P' || p.IsCapture(m1) {
			continue
		}
		p1 := p.Make(m1)
		l2 := p1.Legal()
		rc.SortMoves(l2)
		for _, m2 := range l2 {
			if m2.Kind != rc.Normal || rc.Upper(p1.B[m2.From]) == 'P' || p1.IsCapture(m2) {
				continue
			}
			p2 := p1.Make(m2)
			b1 := rc.Move{From: m1.To, To: m1.From, Kind: rc.Normal}
			if !p2.IsLegalListed(b1) {
				continue
			}
			p3 := p2.Make(b1)
			b2 := rc.Move{From: m2.To, To: m2.From, Kind: rc.Normal}
			if !p3.IsLegalListed(b2) {
				continue
			}
			p4 := p3.Make(b2)
			if p4.FEN4() == want {
				quads = append(quads, quad{m1, m2, b1, b2})
			}
		}
		if len(quads) > 40 {
			break
		}
	}
	if len(quads) == 0 {
		return pl, false
	}
	q := quads[rapid.IntRange(0, len(quads)-1).Draw(t, "shuffle")]
	// two cycles minus one or two plies is the first possible threefold repetition (clock start+8)
	cycles := rapid.SampledFrom([]int{1, 2, 2, 2, 3}).Draw(t, "cycles")
	if cycles > maxCycles {
		cycles = maxCycles
	}
	cut := rapid.SampledFrom([]int{0, 1, 1, 2, 2, 3}).Draw(t, "cut")
	var ms []string
	for i := 0; i < cycles; i++ {
		ms = append(ms, q.a.UCI(true), q.b.UCI(true), q.c.UCI(true), q.d.UCI(true))
	}
	pl.Moves = ms[:len(ms)-cut]
	return pl, true
}

func parseUCIShallow(s string) (rc.Move, bool) {
	if len(s) < 4 {
		return rc.Move{}, false
	}
	return rc.Move{From: rc.ParseSq(s[0:2]), To: rc.ParseSq(s[2:4])}, true
}

// GenStart draws a start position: seed corpus or constructed.
func GenStart(t *rapid.T, maxPieces int) rc.Pos {
	if rapid.IntRange(0, 2).Draw(t, "src") == 0 {
		return GenConstructed(t, maxPieces)
	}
	return rc.MustParse(GenSeedFEN(t))
}

// GenPlayout draws a start position and a playout from it.
func GenPlayout(t *rapid.T, maxPlies int, bias int) Playout {
	return GenPlayoutFrom(t, GenStart(t, 14), maxPlies, bias)
}

// GenPosition draws a position: seed, constructed or reached by a short playout.
func GenPosition(t *rapid.T) rc.Pos {
	switch rapid.IntRange(0, 3).Draw(t, "psrc") {
	case 0:
		return GenConstructed(t, 14)
	case 1:
		return GenConstructed(t, 5)
	case 2:
		return rc.MustParse(GenSeedFEN(t))
	default:
		pl := GenPlayout(t, 24, 1)
		ps, _ := pl.Replay()
		return ps[len(ps)-1]
	}
}

// Classify returns class labels of a position (for the generator histograms and
// the non-triviality rules).
func Classify(p *rc.Pos) []string {
	var ls []string
	ch := p.Checkers()
	if ch != 0 {
		ls = append(ls, "in-check")
		if bits.OnesCount64(ch) >= 2 {
			ls = append(ls, "double-check")
		}
	}
	if p.EP >= 0 {
		ls = append(ls, "ep-set")
		if f := rc.FileOf(p.EP); f == 0 || f == 7 {
			ls = append(ls, "ep-edge-file")
		}
	}
	if p.Castle != [4]bool{} {
		ls = append(ls, "castling-rights")
	}
	legal := p.Legal()
	pseudo := p.PseudoLegal()
	if len(pseudo) != len(legal) {
		ls = append(ls, "has-illegal-pseudo(pin/king-walk)")
	}
	hasEP, hasPromo, hasCastle := false, false, false
	for _, m := range legal {
		switch m.Kind {
		case rc.EnPassant:
			hasEP = true
		case rc.Promotion:
			hasPromo = true
		case rc.Castling:
			hasCastle = true
		}
	}
	if hasEP {
		ls = append(ls, "ep-capturable")
	}
	if hasPromo {
		ls = append(ls, "promotion-available")
	}
	if hasCastle {
		ls = append(ls, "castling-available")
	}
	if len(legal) == 0 {
		if ch != 0 {
			ls = append(ls, "checkmate")
		} else {
			ls = append(ls, "stalemate")
		}
	}
	if p.PieceCount() <= 5 {
		ls = append(ls, "few-pieces")
	}
	return ls
}

// NonTrivialPos is the C01-style rule: the position exercises a special rule.
func NonTrivialPos(labels []string) bool {
	for _, l := range labels {
		if l != "few-pieces" {
			return true
		}
	}
	return false
}

// JoinMoves renders reference moves.
func JoinMoves(ms []rc.Move) string {
	var s []string
	for _, m := range ms {
		s = append(s, m.UCI(true))
	}
	return strings.Join(s, " ")
}
