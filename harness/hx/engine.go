package hx

import (
	"fmt"
	"io"
	"log"

	"github.com/frankkopp/FrankyGo/internal/config"
	"github.com/frankkopp/FrankyGo/internal/moveslice"
	"github.com/frankkopp/FrankyGo/internal/position"
	"github.com/frankkopp/FrankyGo/internal/types"
	rc "github.com/frankkopp/FrankyGo/verifharness/refchess"
)

// Silence turns all engine logging off and sets cheap defaults.  Called from the
// init of the props package (before any engine object is created).
func Silence() {
	config.LogLevel = -1
	config.SearchLogLevel = -1
	config.TestLogLevel = -1
	config.Settings.Log.LogPath = "/nonexistent-verif-logs"
	log.SetOutput(io.Discard)
	config.Settings.Search.UseBook = false
	config.Settings.Search.TTSize = 1
}

// SettingsSnapshot copies the process-global engine configuration.
type SettingsSnapshot struct {
	s any
}

var defaultSettings = config.Settings

// DefaultSettings restores the configuration captured at process start (after
// package init, before Silence adjustments) plus the harness' cheap defaults.
func DefaultSettings() {
	config.Settings = defaultSettings
	config.Settings.Log.LogPath = "/nonexistent-verif-logs"
	config.Settings.Search.UseBook = false
	config.Settings.Search.TTSize = 1
}

var ptOfLetter = map[byte]types.PieceType{'N': types.Knight, 'B': types.Bishop, 'R': types.Rook, 'Q': types.Queen}
var letterOfPt = map[types.PieceType]byte{types.Knight: 'N', types.Bishop: 'B', types.Rook: 'R', types.Queen: 'Q'}

// ToEngine converts a reference move into the engine's packed move.
func ToEngine(m rc.Move) types.Move {
	var mt types.MoveType
	pt := types.PtNone
	switch m.Kind {
	case rc.Normal:
		mt = types.Normal
	case rc.Promotion:
		mt = types.Promotion
		pt = ptOfLetter[m.Promo]
	case rc.EnPassant:
		mt = types.EnPassant
	case rc.Castling:
		mt = types.Castling
	}
	return types.CreateMove(types.Square(m.From), types.Square(m.To), mt, pt)
}

// FromEngine converts an engine move (sort value ignored) to a reference move.
func FromEngine(m types.Move) rc.Move {
	r := rc.Move{From: int(m.From()), To: int(m.To())}
	switch m.MoveType() {
	case types.Normal:
		r.Kind = rc.Normal
	case types.Promotion:
		r.Kind = rc.Promotion
		r.Promo = letterOfPt[m.PromotionType()]
	case types.EnPassant:
		r.Kind = rc.EnPassant
	case types.Castling:
		r.Kind = rc.Castling
	}
	return r
}

// MovesOf converts an engine move list.
func MovesOf(ms *moveslice.MoveSlice) []rc.Move {
	out := make([]rc.Move, 0, ms.Len())
	for i := 0; i < ms.Len(); i++ {
		out = append(out, FromEngine(ms.At(i)))
	}
	return out
}

// MoveSetDiff compares two move lists as multisets and describes the difference.
func MoveSetDiff(got, want []rc.Move) (missing, extra, dup []rc.Move) {
	cnt := map[rc.Move]int{}
	for _, m := range got {
		cnt[m]++
		if cnt[m] == 2 {
			dup = append(dup, m)
		}
	}
	w := map[rc.Move]bool{}
	for _, m := range want {
		w[m] = true
		if cnt[m] == 0 {
			missing = append(missing, m)
		}
	}
	for m := range cnt {
		if !w[m] {
			extra = append(extra, m)
		}
	}
	rc.SortMoves(missing)
	rc.SortMoves(extra)
	rc.SortMoves(dup)
	return
}

// NewPos creates an engine position from a FEN that must be valid.
func NewPos(fen string) *position.Position {
	p, err := position.NewPositionFen(fen)
	if err != nil || p == nil {
		panic(fmt.Sprintf("harness: engine rejects fen %q: %v", fen, err))
	}
	return p
}

// PieceLetter returns the FEN letter of an engine piece (0 for none).
func PieceLetter(pc types.Piece) byte {
	if pc == types.PieceNone {
		return 0
	}
	return pc.String()[0]
}

// Snapshot is every observable of a position named in C03/C04.
type Snapshot struct {
	Fen        string
	Key        uint64
	PiecesBb   [2][7]uint64
	OccBb      [2]uint64
	OccAll     uint64
	KingSq     [2]int
	Material   [2]int
	MatNonPawn [2]int
	PsqMid     [2]int
	PsqEnd     [2]int
	GamePhase  int
	GPF        float64
	Board      [64]byte
	Castling   int
	EP         int
	Half       int
	Next       int
	Insuff     bool
}

// Snap takes the snapshot (does not call anything that mutates caches except none).
func Snap(p *position.Position) Snapshot {
	var s Snapshot
	s.Fen = p.StringFen()
	s.Key = uint64(p.ZobristKey())
	for c := 0; c < 2; c++ {
		for pt := types.King; pt <= types.Queen; pt++ {
			s.PiecesBb[c][pt] = uint64(p.PiecesBb(types.Color(c), pt))
		}
		s.OccBb[c] = uint64(p.OccupiedBb(types.Color(c)))
		s.KingSq[c] = int(p.KingSquare(types.Color(c)))
		s.Material[c] = int(p.Material(types.Color(c)))
		s.MatNonPawn[c] = int(p.MaterialNonPawn(types.Color(c)))
		s.PsqMid[c] = int(p.PsqMidValue(types.Color(c)))
		s.PsqEnd[c] = int(p.PsqEndValue(types.Color(c)))
	}
	s.OccAll = uint64(p.OccupiedAll())
	s.GamePhase = p.GamePhase()
	s.GPF = p.GamePhaseFactor()
	for sq := 0; sq < 64; sq++ {
		s.Board[sq] = PieceLetter(p.GetPiece(types.Square(sq)))
	}
	s.Castling = int(p.CastlingRights())
	s.EP = int(p.GetEnPassantSquare())
	s.Half = p.HalfMoveClock()
	s.Next = int(p.NextPlayer())
	s.Insuff = p.HasInsufficientMaterial()
	return s
}

// Diff names the first differing observable of two snapshots ("" when equal).
func (a Snapshot) Diff(b Snapshot) string {
	switch {
	case a.Fen != b.Fen:
		return fmt.Sprintf("fen %q vs %q", a.Fen, b.Fen)
	case a.Key != b.Key:
		return fmt.Sprintf("key %x vs %x", a.Key, b.Key)
	case a.PiecesBb != b.PiecesBb:
		return "piecesBb"
	case a.OccBb != b.OccBb:
		return "occupiedBb"
	case a.OccAll != b.OccAll:
		return "occupiedAll"
	case a.KingSq != b.KingSq:
		return fmt.Sprintf("kingSquare %v vs %v", a.KingSq, b.KingSq)
	case a.Material != b.Material:
		return fmt.Sprintf("material %v vs %v", a.Material, b.Material)
	case a.MatNonPawn != b.MatNonPawn:
		return fmt.Sprintf("materialNonPawn %v vs %v", a.MatNonPawn, b.MatNonPawn)
	case a.PsqMid != b.PsqMid:
		return fmt.Sprintf("psqMid %v vs %v", a.PsqMid, b.PsqMid)
	case a.PsqEnd != b.PsqEnd:
		return fmt.Sprintf("psqEnd %v vs %v", a.PsqEnd, b.PsqEnd)
	case a.GamePhase != b.GamePhase:
		return fmt.Sprintf("gamePhase %d vs %d", a.GamePhase, b.GamePhase)
	case a.GPF != b.GPF:
		return fmt.Sprintf("gamePhaseFactor %v vs %v", a.GPF, b.GPF)
	case a.Board != b.Board:
		return "board"
	case a.Castling != b.Castling:
		return "castling"
	case a.EP != b.EP:
		return "ep"
	case a.Half != b.Half:
		return "halfmove"
	case a.Next != b.Next:
		return "nextPlayer"
	case a.Insuff != b.Insuff:
		return "insufficientMaterial"
	}
	return ""
}

// DiffField returns a short stable name of the first differing observable.
func (a Snapshot) DiffField(b Snapshot) string {
	d := a.Diff(b)
	for i := 0; i < len(d); i++ {
		if d[i] == ' ' {
			return d[:i]
		}
	}
	return d
}
