// Package hx is the shared machinery of the verification harness: evidence
// recording, known-finding handling, the rapid runner with failure capture,
// replay files, and glue between the reference oracle and the engine.
package hx

import (
	"bufio"
	"crypto/sha1"
	"encoding/binary"
	"encoding/hex"
	"encoding/json"
	"flag"
	"fmt"
	"hash/fnv"
	"os"
	"path/filepath"
	"runtime"
	"runtime/debug"
	"sort"
	"strconv"
	"strings"
	"sync"
	"testing"
	"time"

	"pgregory.net/rapid"
)

// Out is the real standard output of the process (os.Stdout is redirected to
// /dev/null by the props package because the engine prints to it).
var Out *os.File = os.Stdout


// Failure is a detected disagreement between the engine and the oracle.
// Sig identifies the root-cause class (never derived from the random input).
type Failure struct {
	Sig string `json:"signature"`
	Msg string `json:"observed"`
}

func (f *Failure) Error() string { return f.Sig + ": " + f.Msg }

// Failf builds a failure.
func Failf(sig, format string, a ...any) *Failure {
	return &Failure{Sig: sig, Msg: fmt.Sprintf(format, a...)}
}

// Obs collects per-case observations made by a property function.
type Obs struct {
	nt     bool
	key    string
	labels []string
	extra  int64
	ntKeys []string
	bulk   map[string]int64
}

// NTBulk records n non-trivial units that are distinct by construction (an exhaustive
// enumeration); prefix names the enumeration so that it is counted once.
func (o *Obs) NTBulk(prefix string, n int64) {
	if o.bulk == nil {
		o.bulk = map[string]int64{}
	}
	o.bulk[prefix] += n
}

// NT marks the case as non-trivial; key (may be "") identifies it for distinct
// counting, default is the JSON of the case.
func (o *Obs) NT(key string) { o.nt = true; o.key = key }

// NTKey adds an additional distinct non-trivial unit inside the case (e.g. one
// position of a playout).
func (o *Obs) NTKey(key string) { o.ntKeys = append(o.ntKeys, key) }

// Label adds a class label to the histogram.
func (o *Obs) Label(l string) { o.labels = append(o.labels, l) }

// Evals adds n additional oracle evaluations performed inside this case.
func (o *Obs) Evals(n int) { o.extra += int64(n) }

type subStat struct {
	Requested   int     `json:"requested"`
	Evaluations int64   `json:"evaluations"`
	Cases       int64   `json:"cases"`
	Passed      bool    `json:"passed"`
	Exhaustive  bool    `json:"exhaustive,omitempty"`
	WallS       float64 `json:"wall_s"`
}

type violation struct {
	Sig    string `json:"signature"`
	Replay string `json:"replay"`
	Msg    string `json:"observed"`
	Sub    string `json:"check"`
}

type knownHit struct {
	Count  int64  `json:"count"`
	Replay string `json:"sample_replay,omitempty"`
	Msg    string `json:"sample_observed,omitempty"`
}

// Rec is the evidence recorder of one property run (one process).
type Rec struct {
	ID      string
	Tier    string
	Seed    int64
	Shard   int
	Root    string
	mu      sync.Mutex
	evals   int64
	nt      map[uint64]struct{}
	ntCap   int
	ntOver  int64
	labels  map[string]int64
	samples []json.RawMessage
	sampleN int64
	subs    map[string]*subStat
	known   map[string]string // sig -> description (listed findings for this property)
	hits    map[string]*knownHit
	viols   []violation
	assume  []string
	excl    map[string]int64
	start   time.Time
	replay  *replayFile
	t       *testing.T
	last    *lastFail
	infl    bool
	notes   []string
	bulk    map[string]int64
}

type lastFail struct {
	c any
	f *Failure
}

type replayFile struct {
	Property string          `json:"property"`
	Sig      string          `json:"signature"`
	Sub      string          `json:"check"`
	Seed     int64           `json:"seed"`
	Tier     string          `json:"tier"`
	Case     json.RawMessage `json:"case"`
	Observed string          `json:"observed"`
}

func envInt(k string, d int64) int64 {
	if v, ok := os.LookupEnv(k); ok {
		if n, err := strconv.ParseInt(v, 10, 64); err == nil {
			return n
		}
	}
	return d
}

// NewRec creates the recorder for property id from the environment.
func NewRec(t *testing.T, id string) *Rec {
	r := &Rec{ID: id, t: t, nt: map[uint64]struct{}{}, labels: map[string]int64{}, subs: map[string]*subStat{},
		known: map[string]string{}, hits: map[string]*knownHit{}, excl: map[string]int64{}, start: time.Now(), ntCap: 3_000_000}
	r.Tier = os.Getenv("VERIF_TIER")
	if r.Tier != "thorough" {
		r.Tier = "quick"
	}
	r.Seed = envInt("VERIF_SEED", 1)
	r.Shard = int(envInt("VERIF_SHARD", 0))
	r.Root = os.Getenv("VERIF_ROOT")
	if r.Root == "" {
		r.Root = "/verif"
	}
	r.infl = os.Getenv("VERIF_INFLIGHT") != "" // the driver re-runs a shard that died with this set
	r.loadKnown()
	if p := os.Getenv("VERIF_REPLAY"); p != "" {
		b, err := os.ReadFile(p)
		if err != nil {
			t.Fatalf("INFRA: cannot read replay file: %v", err)
		}
		var rf replayFile
		if err := json.Unmarshal(b, &rf); err != nil {
			t.Fatalf("INFRA: bad replay file: %v", err)
		}
		r.replay = &rf
	}
	return r
}

func (r *Rec) loadKnown() {
	f, err := os.Open(filepath.Join(r.Root, "KNOWN_FINDINGS.txt"))
	if err != nil {
		return
	}
	defer f.Close()
	sc := bufio.NewScanner(f)
	for sc.Scan() {
		line := strings.TrimSpace(sc.Text())
		if !strings.HasPrefix(line, "finding:") {
			continue // "fixed:" lines and comments suppress nothing
		}
		fields := strings.Fields(line[len("finding:"):])
		var prop, sig string
		rest := []string{}
		for _, fl := range fields {
			switch {
			case strings.HasPrefix(fl, "property=") && prop == "":
				prop = fl[len("property="):]
			case strings.HasPrefix(fl, "sig=") && sig == "":
				sig = fl[len("sig="):]
			default:
				rest = append(rest, fl)
			}
		}
		if prop == r.ID && sig != "" {
			r.known[sig] = strings.Join(rest, " ")
		}
	}
}

// KnownInline lets a property tolerate a listed known finding in the middle of a case and go on
// checking behind it: it returns true (and counts the hit) when sig is listed in KNOWN_FINDINGS.txt.
// In replay mode nothing is listed, so the finding is reported.
func (r *Rec) KnownInline(sig, msg string) bool {
	if _, ok := r.known[sig]; !ok {
		return false
	}
	r.mu.Lock()
	h := r.hits[sig]
	if h == nil {
		h = &knownHit{Msg: msg}
		r.hits[sig] = h
	}
	h.Count++
	r.mu.Unlock()
	return true
}

// Race reports whether this process is the -race build (fewer cases: the detector slows the engine down).
func (r *Rec) Race() bool { return os.Getenv("VERIF_RACE") != "" }

// Quick reports whether this is the quick tier.
func (r *Rec) Quick() bool { return r.Tier != "thorough" }

// N picks a case count by tier.
func (r *Rec) N(quick, thorough int) int {
	if r.Quick() {
		return quick
	}
	return thorough
}

// Assume records an assumption / domain restriction for the evidence file.
func (r *Rec) Assume(s string) { r.assume = append(r.assume, s) }

// Note records free text for the evidence file.
func (r *Rec) Note(s string) { r.notes = append(r.notes, s) }

// Excluded counts an input excluded by construction (domain restriction).
func (r *Rec) Excluded(why string, n int) {
	r.mu.Lock()
	r.excl[why] += int64(n)
	r.mu.Unlock()
}

// Inflight makes every case be written to an in-flight file before it runs so
// that a process crash leaves the failing input behind.
func (r *Rec) Inflight(on bool) { r.infl = on || os.Getenv("VERIF_INFLIGHT") != "" }

func hash64(s string) uint64 {
	h := fnv.New64a()
	h.Write([]byte(s))
	return h.Sum64()
}

func (r *Rec) observe(sub string, c any, o *Obs) {
	r.mu.Lock()
	defer r.mu.Unlock()
	n := o.extra // evaluations counted by the property itself, else the case counts as one
	if n == 0 {
		n = 1
	}
	r.evals += n
	st := r.subs[sub]
	st.Evaluations += n
	st.Cases++
	for _, l := range o.labels {
		r.labels[l]++
	}
	addNT := func(k string) {
		if len(r.nt) >= r.ntCap {
			r.ntOver++
			return
		}
		r.nt[hash64(sub+"|"+k)] = struct{}{}
	}
	if o.nt {
		k := o.key
		if k == "" {
			b, _ := json.Marshal(c)
			k = string(b)
		}
		addNT(k)
	}
	for _, k := range o.ntKeys {
		addNT(k)
	}
	for k, n := range o.bulk {
		if r.bulk == nil {
			r.bulk = map[string]int64{}
		}
		if n > r.bulk[sub+"|"+k] {
			r.bulk[sub+"|"+k] = n
		}
	}
	if o.nt || len(o.ntKeys) > 0 || len(o.bulk) > 0 || r.sampleN < 2 {
		r.sampleN++
		// keep the 1st, 2nd, 4th, 8th ... non-trivial case as samples (deterministic)
		if r.sampleN&(r.sampleN-1) == 0 && len(r.samples) < 14 {
			b, _ := json.Marshal(map[string]any{"check": sub, "case": c})
			if len(b) < 4000 {
				r.samples = append(r.samples, b)
			}
		}
	}
}

// captureTB is the rapid.TB given to rapid.Check so that a failing property does
// not abort the Go test and the minimal failing case can be saved.
type captureTB struct {
	name   string
	failed bool
	log    []string
}

func (c *captureTB) Helper()      {}
func (c *captureTB) Name() string { return c.name }
func (c *captureTB) Logf(format string, args ...any) {
	if len(c.log) < 200 {
		c.log = append(c.log, fmt.Sprintf(format, args...))
	}
}
func (c *captureTB) Log(args ...any)                   { c.Logf("%s", fmt.Sprint(args...)) }
func (c *captureTB) Skipf(format string, args ...any)  {}
func (c *captureTB) Skip(args ...any)                  {}
func (c *captureTB) SkipNow()                          {}
func (c *captureTB) Errorf(format string, args ...any) { c.failed = true; c.Logf(format, args...) }
func (c *captureTB) Error(args ...any)                 { c.failed = true; c.Log(args...) }
func (c *captureTB) Fatalf(format string, args ...any) { c.failed = true; c.Logf(format, args...) }
func (c *captureTB) Fatal(args ...any)                 { c.failed = true; c.Log(args...) }
func (c *captureTB) FailNow()                          { c.failed = true }
func (c *captureTB) Fail()                             { c.failed = true }
func (c *captureTB) Failed() bool                      { return c.failed }

// engineFrame extracts the innermost engine function from a stack trace.
func engineFrame(stack string) string {
	for _, line := range strings.Split(stack, "\n") {
		line = strings.TrimSpace(line)
		if strings.HasPrefix(line, "github.com/frankkopp/FrankyGo/internal/") {
			fn := line[len("github.com/frankkopp/FrankyGo/internal/"):]
			if i := strings.LastIndex(fn, "("); i > 0 {
				fn = fn[:i]
			}
			return fn
		}
	}
	return "unknown"
}

// Guard runs f and converts a panic into a Failure with the given signature prefix.
func Guard(sigPrefix string, f func() *Failure) (fail *Failure) {
	defer func() {
		if x := recover(); x != nil {
			st := string(debug.Stack())
			fail = Failf(sigPrefix+"/panic/"+engineFrame(st), "panic: %v", x)
		}
	}()
	return f()
}

func (r *Rec) runProp(sub string, c any, prop func(o *Obs) *Failure, count bool) *Failure {
	if r.infl {
		r.writeInflight(sub, c)
		dieRec, dieSub, dieCase = r, sub, c
	}
	o := &Obs{}
	f := Guard(r.ID+"/"+sub, func() *Failure { return prop(o) })
	if count {
		r.observe(sub, c, o)
	}
	if r.infl {
		r.clearInflight()
	}
	if f == nil {
		return nil
	}
	if desc, ok := r.known[f.Sig]; ok {
		_ = desc
		r.mu.Lock()
		h := r.hits[f.Sig]
		if h == nil {
			h = &knownHit{}
			r.hits[f.Sig] = h
		}
		h.Count++
		first := h.Count == 1
		r.mu.Unlock()
		if first {
			h.Replay = r.writeReplay(sub, c, f, "known")
			h.Msg = f.Msg
		}
		return nil // excluded by signature: the search continues behind it
	}
	return f
}

var dieRec *Rec
var dieSub string
var dieCase any

// Die ends the process from inside a property when the engine has wedged global state (a leaked
// package-level mutex): the in-flight case file is rewritten with the precise signature and the
// process exits with status 3; the driver confirms the case by replay and reports it.
func Die(sig, msg string) {
	fmt.Fprintf(Out, "DIE sig=%s\n  %s\n", sig, msg)
	if dieRec != nil {
		cb, _ := json.Marshal(dieCase)
		rf := replayFile{Property: dieRec.ID, Sig: sig, Sub: dieSub, Seed: dieRec.Seed, Tier: dieRec.Tier, Case: cb, Observed: msg}
		b, _ := json.Marshal(rf)
		_ = os.WriteFile(dieRec.inflightPath(), b, 0o644)
	}
	os.Exit(3)
}

func (r *Rec) inflightPath() string {
	return filepath.Join(r.Root, "replays", fmt.Sprintf(".inflight-%s-%d.json", r.ID, os.Getpid()))
}

func (r *Rec) writeInflight(sub string, c any) {
	cb, _ := json.Marshal(c)
	rf := replayFile{Property: r.ID, Sig: r.ID + "/" + sub + "/process-died", Sub: sub, Seed: r.Seed, Tier: r.Tier, Case: cb, Observed: "process died while this case was running"}
	b, _ := json.Marshal(rf)
	_ = os.WriteFile(r.inflightPath(), b, 0o644)
}

func (r *Rec) clearInflight() { _ = os.Remove(r.inflightPath()) }

func (r *Rec) writeReplay(sub string, c any, f *Failure, kind string) string {
	cb, _ := json.Marshal(c)
	rf := replayFile{Property: r.ID, Sig: f.Sig, Sub: sub, Seed: r.Seed, Tier: r.Tier, Case: cb, Observed: f.Msg}
	b, _ := json.MarshalIndent(rf, "", " ")
	h := sha1.Sum(append([]byte(f.Sig), cb...))
	dir := filepath.Join(r.Root, "replays")
	_ = os.MkdirAll(dir, 0o755)
	name := fmt.Sprintf("%s-%s.json", r.ID, hex.EncodeToString(h[:6]))
	if kind == "known" {
		name = fmt.Sprintf("known-%s-%s.json", r.ID, hex.EncodeToString(h[:6]))
	}
	p := filepath.Join(dir, name)
	_ = os.WriteFile(p, b, 0o644)
	return p
}

func (r *Rec) addViolation(sub string, c any, f *Failure) {
	p := r.writeReplay(sub, c, f, "violation")
	r.mu.Lock()
	r.viols = append(r.viols, violation{Sig: f.Sig, Replay: p, Msg: f.Msg, Sub: sub})
	r.mu.Unlock()
	fmt.Fprintf(Out, "VIOLATION-CANDIDATE property=%s sig=%s replay=%s\n  %s\n", r.ID, f.Sig, p, f.Msg)
}

// maxViolations stops a run after this many distinct violations.
const maxViolations = 4

func (r *Rec) stop() bool {
	r.mu.Lock()
	defer r.mu.Unlock()
	return len(r.viols) >= maxViolations
}

// wantSub reports whether sub-check `name` should run (replay mode selects one).
func (r *Rec) wantSub(name string) bool {
	if r.replay != nil {
		return r.replay.Sub == name
	}
	if only := os.Getenv("VERIF_SUB"); only != "" {
		return only == name
	}
	return !r.stop()
}

// Sub runs one rapid-driven sub-check: gen draws a case, prop decides it.
// In replay mode the saved case is decoded and prop is run without rapid.
func Sub[C any](r *Rec, name string, checks int, gen func(t *rapid.T) C, prop func(c C, o *Obs) *Failure) bool {
	if !r.wantSub(name) {
		return true
	}
	if r.replay != nil {
		return replayCase(r, name, prop)
	}
	st := &subStat{Requested: checks}
	r.subs[name] = st
	t0 := time.Now()
	_ = flag.Set("rapid.checks", strconv.Itoa(checks))
	tb := &captureTB{name: r.ID + "_" + name}
	r.last = nil
	searching := true
	rapid.Check(tb, func(t *rapid.T) {
		c := gen(t)
		f := r.runProp(name, c, func(o *Obs) *Failure { return prop(c, o) }, searching)
		if f != nil {
			searching = false // shrink phase: do not count evaluations any more
			r.last = &lastFail{c: c, f: f}
			t.Fatalf("%s", f.Error())
		}
	})
	st.WallS = time.Since(t0).Seconds()
	if tb.failed {
		if r.last != nil {
			r.addViolation(name, r.last.c, r.last.f)
		} else {
			// rapid itself failed (generator problem): infrastructure, not a violation
			fmt.Fprintf(Out, "INFRA: rapid failure in %s/%s: %s\n", r.ID, name, strings.Join(tb.log, "\n"))
			r.t.Errorf("INFRA: rapid failure in %s", name)
		}
		return false
	}
	if int(st.Cases) < checks {
		fmt.Fprintf(Out, "INFRA: %s/%s ran only %d of %d cases\n", r.ID, name, st.Cases, checks)
		r.t.Errorf("INFRA: short run in %s", name)
		return false
	}
	st.Passed = true
	return true
}

// Enum runs an exhaustive (or fixed) enumeration sub-check: iter yields cases.
func Enum[C any](r *Rec, name string, exhaustive bool, iter func(yield func(C) bool), prop func(c C, o *Obs) *Failure) bool {
	if !r.wantSub(name) {
		return true
	}
	if r.replay != nil {
		return replayCase(r, name, prop)
	}
	st := &subStat{Exhaustive: exhaustive}
	r.subs[name] = st
	t0 := time.Now()
	ok := true
	seen := map[string]bool{}
	iter(func(c C) bool {
		f := r.runProp(name, c, func(o *Obs) *Failure { return prop(c, o) }, true)
		if f != nil {
			ok = false
			if !seen[f.Sig] {
				seen[f.Sig] = true
				r.addViolation(name, c, f)
			}
			return !r.stop() && len(seen) < maxViolations
		}
		return true
	})
	st.WallS = time.Since(t0).Seconds()
	st.Passed = ok
	st.Requested = int(st.Cases)
	return ok
}

func replayCase[C any](r *Rec, name string, prop func(c C, o *Obs) *Failure) bool {
	var c C
	if err := json.Unmarshal(r.replay.Case, &c); err != nil {
		r.t.Fatalf("INFRA: cannot decode replay case: %v", err)
	}
	reps := int(envInt("VERIF_REPLAY_REPS", 1))
	fails := 0
	var lastF *Failure
	for i := 0; i < reps; i++ {
		o := &Obs{}
		saveKnown := r.known
		// replay reports everything - except when the driver confirms a worker death: there the listed
		// findings stay tolerated inline so that the case runs on to the point where the process died
		if os.Getenv("VERIF_REPLAY_KEEP_KNOWN") == "" {
			r.known = map[string]string{}
		}
		f := Guard(r.ID+"/"+name, func() *Failure { return prop(c, o) })
		r.known = saveKnown
		if f != nil {
			fails++
			lastF = f
		}
	}
	fmt.Fprintf(Out, "REPLAY property=%s check=%s runs=%d failed=%d\n", r.ID, name, reps, fails)
	if lastF != nil {
		fmt.Fprintf(Out, "REPLAY-FAILURE sig=%s\n  %s\n", lastF.Sig, lastF.Msg)
		r.mu.Lock()
		r.viols = append(r.viols, violation{Sig: lastF.Sig, Replay: os.Getenv("VERIF_REPLAY"), Msg: lastF.Msg, Sub: name})
		r.mu.Unlock()
		return false
	}
	return true
}

type result struct {
	Property    string               `json:"property_id"`
	Tier        string               `json:"tier"`
	Seed        int64                `json:"seed"`
	Shard       int                  `json:"shard"`
	Evaluations int64                `json:"evaluations"`
	Distinct    int                  `json:"distinct_nontrivial"`
	NTOverflow  int64                `json:"nontrivial_uncounted_over_cap"`
	HashFile    string               `json:"hash_file"`
	Labels      map[string]int64     `json:"labels"`
	Samples     []json.RawMessage    `json:"samples"`
	Subs        map[string]*subStat  `json:"checks"`
	Known       map[string]*knownHit `json:"excluded_known"`
	KnownListed map[string]string    `json:"known_listed"`
	Excluded    map[string]int64     `json:"excluded_by_construction"`
	Violations  []violation          `json:"violations"`
	Assumptions []string             `json:"assumptions"`
	Notes       []string             `json:"notes"`
	WallS       float64              `json:"wall_s"`
	Replay      bool                 `json:"replay_mode"`
	GoMaxProcs  int                  `json:"gomaxprocs"`
	Bulk        map[string]int64     `json:"distinct_by_enumeration"`
}

// Finish writes the per-process result file ($VERIF_OUT) and fails the test when
// violations were found.
func (r *Rec) Finish() {
	out := os.Getenv("VERIF_OUT")
	res := result{Property: r.ID, Tier: r.Tier, Seed: r.Seed, Shard: r.Shard, Evaluations: r.evals, Distinct: len(r.nt), NTOverflow: r.ntOver,
		Labels: r.labels, Samples: r.samples, Subs: r.subs, Known: r.hits, KnownListed: r.known, Excluded: r.excl, Violations: r.viols,
		Assumptions: r.assume, Notes: r.notes, WallS: time.Since(r.start).Seconds(), Replay: r.replay != nil, GoMaxProcs: runtime.GOMAXPROCS(0), Bulk: r.bulk}
	for _, n := range r.bulk {
		res.Distinct += int(n)
	}
	if out != "" {
		// hashes of distinct non-trivial cases, for merging across shards
		hf := out + ".hashes"
		keys := make([]uint64, 0, len(r.nt))
		for k := range r.nt {
			keys = append(keys, k)
		}
		sort.Slice(keys, func(i, j int) bool { return keys[i] < keys[j] })
		buf := make([]byte, 8*len(keys))
		for i, k := range keys {
			binary.LittleEndian.PutUint64(buf[8*i:], k)
		}
		if err := os.WriteFile(hf, buf, 0o644); err == nil {
			res.HashFile = hf
		}
		b, _ := json.MarshalIndent(res, "", " ")
		if err := os.WriteFile(out, b, 0o644); err != nil {
			r.t.Errorf("INFRA: cannot write result: %v", err)
		}
	}
	if len(r.viols) > 0 {
		r.t.Errorf("%d violation(s)", len(r.viols))
	}
}
