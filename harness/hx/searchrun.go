package hx

import (
	"fmt"
	"reflect"
	"sort"
	"sync"
	"time"

	"github.com/frankkopp/FrankyGo/internal/config"
	"github.com/frankkopp/FrankyGo/internal/moveslice"
	"github.com/frankkopp/FrankyGo/internal/position"
	"github.com/frankkopp/FrankyGo/internal/search"
	"github.com/frankkopp/FrankyGo/internal/types"
	rc "github.com/frankkopp/FrankyGo/verifharness/refchess"
	"pgregory.net/rapid"
)

// IterInfo is one "info depth ... pv ..." report of the search.
type IterInfo struct {
	Depth int
	Value int
	Pv    []types.Move
	At    time.Time
}

// SentResult is one SendResult call.
type SentResult struct {
	Best, Ponder types.Move
	At           time.Time
}

// Driver is a recording uciInterface.UciDriver.
type Driver struct {
	mu      sync.Mutex
	Iters   []IterInfo
	Results []SentResult
	ReadyOk int
	Infos   []string
}

func (d *Driver) SendReadyOk() { d.mu.Lock(); d.ReadyOk++; d.mu.Unlock() }
func (d *Driver) SendInfoString(info string) {
	d.mu.Lock()
	if len(d.Infos) < 100 {
		d.Infos = append(d.Infos, info)
	}
	d.mu.Unlock()
}
func (d *Driver) SendIterationEndInfo(depth int, seldepth int, value types.Value, nodes uint64, nps uint64, t time.Duration, pv moveslice.MoveSlice) {
	d.mu.Lock()
	d.Iters = append(d.Iters, IterInfo{depth, int(value), append([]types.Move{}, pv...), time.Now()})
	d.mu.Unlock()
}
func (d *Driver) SendAspirationResearchInfo(depth int, seldepth int, value types.Value, bound string, nodes uint64, nps uint64, t time.Duration, pv moveslice.MoveSlice) {
	d.mu.Lock()
	d.Iters = append(d.Iters, IterInfo{depth, int(value), append([]types.Move{}, pv...), time.Now()})
	d.mu.Unlock()
}
func (d *Driver) SendCurrentRootMove(currMove types.Move, moveNumber int) {}
func (d *Driver) SendSearchUpdate(depth int, seldepth int, nodes uint64, nps uint64, t time.Duration, hashfull int) {
}
func (d *Driver) SendCurrentLine(moveList moveslice.MoveSlice) {}
func (d *Driver) SendResult(bestMove types.Move, ponderMove types.Move) {
	d.mu.Lock()
	d.Results = append(d.Results, SentResult{bestMove, ponderMove, time.Now()})
	d.mu.Unlock()
}

// Snapshot returns copies of the recorded data.
func (d *Driver) Snapshot() (iters []IterInfo, results []SentResult, ready int) {
	d.mu.Lock()
	defer d.mu.Unlock()
	return append([]IterInfo{}, d.Iters...), append([]SentResult{}, d.Results...), d.ReadyOk
}

// ItersBetween returns the iteration reports that arrived after a and not after b.
func (d *Driver) ItersBetween(a, b time.Time) []IterInfo {
	d.mu.Lock()
	defer d.mu.Unlock()
	var out []IterInfo
	for _, it := range d.Iters {
		if it.At.After(a) && !it.At.After(b) {
			out = append(out, it)
		}
	}
	return out
}

// Reset clears the record.
func (d *Driver) Reset() {
	d.mu.Lock()
	d.Iters, d.Results, d.ReadyOk, d.Infos = nil, nil, 0, nil
	d.mu.Unlock()
}

// LimSpec describes search limits in a JSON-friendly way (milliseconds).
type LimSpec struct {
	Mode      string   `json:"mode"` // depth nodes movetime clock infinite ponder
	Depth     int      `json:"depth,omitempty"`
	Nodes     int      `json:"nodes,omitempty"`
	MoveTime  int      `json:"movetime_ms,omitempty"`
	WTime     int      `json:"wtime_ms,omitempty"`
	BTime     int      `json:"btime_ms,omitempty"`
	WInc      int      `json:"winc_ms,omitempty"`
	BInc      int      `json:"binc_ms,omitempty"`
	MovesToGo int      `json:"movestogo,omitempty"`
	Moves     []string `json:"searchmoves,omitempty"`
	// controller actions
	StopAfterMs      int `json:"stop_after_ms"`      // -1: never
	PonderHitAfterMs int `json:"ponderhit_after_ms"` // -1: never
}

// Limits converts to the engine's limits for position p.
func (l LimSpec) Limits(p *rc.Pos) search.Limits {
	sl := search.NewSearchLimits()
	ms := func(n int) time.Duration { return time.Duration(n) * time.Millisecond }
	sl.Depth = l.Depth
	sl.Nodes = uint64(l.Nodes)
	switch l.Mode {
	case "infinite":
		sl.Infinite = true
	case "ponder":
		sl.Ponder = true
	}
	if l.MoveTime > 0 {
		sl.MoveTime = ms(l.MoveTime)
		sl.TimeControl = true
	}
	if l.WTime > 0 || l.BTime > 0 {
		sl.WhiteTime, sl.BlackTime, sl.WhiteInc, sl.BlackInc = ms(l.WTime), ms(l.BTime), ms(l.WInc), ms(l.BInc)
		sl.MovesToGo = l.MovesToGo
		sl.TimeControl = true
	}
	for _, s := range l.Moves {
		if m, ok := p.FindUCI(s); ok {
			sl.Moves.PushBack(ToEngine(m))
		}
	}
	return *sl
}

// SelfTerminating reports whether the search ends without a stop command.
func (l LimSpec) SelfTerminating() bool {
	return l.Mode != "infinite" && (l.Mode != "ponder" || l.PonderHitAfterMs >= 0)
}

// GenLimits draws search limits of every mode (cheap ones).
func GenLimits(t *rapid.T, maxDepth int) LimSpec {
	l := LimSpec{StopAfterMs: -1, PonderHitAfterMs: -1}
	switch rapid.IntRange(0, 8).Draw(t, "limitMode") {
	case 0, 1, 2:
		l.Mode = "depth"
		l.Depth = rapid.IntRange(1, maxDepth).Draw(t, "depth")
	case 3:
		l.Mode = "nodes"
		l.Nodes = rapid.IntRange(1, 20000).Draw(t, "nodes")
		// tiny budgets stop the search inside its first iteration
		if rapid.IntRange(0, 2).Draw(t, "tinyNodes") == 0 {
			l.Nodes = rapid.IntRange(1, 40).Draw(t, "nodesTiny")
		}
	case 4:
		l.Mode = "movetime"
		l.MoveTime = rapid.IntRange(5, 60).Draw(t, "movetime")
		if rapid.Bool().Draw(t, "plusDepth") {
			l.Depth = rapid.IntRange(1, maxDepth).Draw(t, "depth")
		}
	case 5:
		l.Mode = "clock"
		l.WTime = rapid.IntRange(30, 600).Draw(t, "wtime")
		l.BTime = rapid.IntRange(30, 600).Draw(t, "btime")
		l.WInc = rapid.IntRange(0, 50).Draw(t, "winc")
		l.BInc = rapid.IntRange(0, 50).Draw(t, "binc")
		l.MovesToGo = rapid.IntRange(0, 6).Draw(t, "mtg")
	case 6:
		l.Mode = "infinite"
		l.StopAfterMs = rapid.IntRange(0, 40).Draw(t, "stopAfter")
		if rapid.IntRange(0, 2).Draw(t, "stopAtOnce") == 0 {
			l.StopAfterMs = 0
		}
		switch rapid.IntRange(0, 3).Draw(t, "plusLimit") {
		case 0, 1:
			l.Depth = rapid.IntRange(1, maxDepth).Draw(t, "depth")
		case 2: // a node limit reached long before the stop: the answer still has to wait for the stop
			l.Nodes = rapid.IntRange(1, 3000).Draw(t, "infNodes")
		}
	case 7:
		l.Mode = "ponder"
		l.MoveTime = rapid.IntRange(5, 40).Draw(t, "movetime")
		l.StopAfterMs = rapid.IntRange(0, 40).Draw(t, "stopAfter")
		if rapid.IntRange(0, 3).Draw(t, "ponderNodes") == 0 {
			l.Nodes = rapid.IntRange(1, 3000).Draw(t, "pNodes")
		}
	case 8:
		l.Mode = "ponder"
		l.MoveTime = rapid.IntRange(5, 40).Draw(t, "movetime")
		l.PonderHitAfterMs = rapid.IntRange(0, 30).Draw(t, "ponderhitAfter")
		switch rapid.IntRange(0, 4).Draw(t, "ponderLimit") {
		case 0: // pondering on a depth limit without a clock: after the ponderhit the answer is due when the depth is reached
			l.MoveTime = 0
			l.Depth = rapid.IntRange(1, maxDepth).Draw(t, "pDepth")
		case 1:
			l.Nodes = rapid.IntRange(1, 3000).Draw(t, "pNodes")
		}
	}
	return l
}

// SearchOutcome is what one controlled search produced.
type SearchOutcome struct {
	Result   search.Result
	Iters    []IterInfo
	Sent     []SentResult
	Hung     bool // did not end even after the harness sent a stop: a real hang
	Slow     bool // exceeded the watchdog but ended after the harness' stop: a budget hit, inconclusive
	Duration time.Duration
	Stats    search.Statistics
	Nodes    uint64
}

// RunSearch starts a search on p, performs the controller actions of l and waits for the end
// (watchdog).  The Search must have a *Driver set as handler.
func RunSearch(s *search.Search, d *Driver, p *position.Position, rp *rc.Pos, l LimSpec, watchdog time.Duration) SearchOutcome {
	d.Reset()
	sl := l.Limits(rp)
	t0 := time.Now()
	s.StartSearch(*p, sl)
	done := make(chan struct{})
	go func() {
		if l.PonderHitAfterMs >= 0 {
			time.Sleep(time.Duration(l.PonderHitAfterMs) * time.Millisecond)
			s.PonderHit()
		}
		if l.StopAfterMs >= 0 {
			time.Sleep(time.Duration(l.StopAfterMs) * time.Millisecond)
			s.StopSearch()
		}
		s.WaitWhileSearching()
		close(done)
	}()
	var out SearchOutcome
	select {
	case <-done:
	case <-time.After(watchdog):
		// a time budget is never an oracle: ask the search to stop; only a search that does not end
		// even then hangs
		stopped := make(chan struct{})
		go func() { s.StopSearch(); close(stopped) }()
		select {
		case <-stopped:
			select {
			case <-done:
			case <-time.After(20 * time.Second):
			}
			out.Slow = true
		case <-time.After(30 * time.Second):
			out.Hung = true
			return out
		}
	}
	out.Duration = time.Since(t0)
	// the search marks itself as finished just before it hands the result to the driver: wait for the delivery
	for i := 0; i < 2000; i++ {
		if _, rs, _ := d.Snapshot(); len(rs) > 0 {
			break
		}
		time.Sleep(time.Millisecond)
	}
	out.Result = s.LastSearchResult()
	out.Iters, out.Sent, _ = d.Snapshot()
	out.Stats = *s.Statistics()
	out.Nodes = s.NodesVisited()
	return out
}

// SettingsVec is a named vector of search switches / parameters.
type SettingsVec map[string]int // bools as 0/1

// Apply writes the vector into config.Settings.Search.
func (v SettingsVec) Apply() {
	rv := reflect.ValueOf(&config.Settings.Search).Elem()
	for k, x := range v {
		f := rv.FieldByName(k)
		if !f.IsValid() {
			panic("harness: unknown search setting " + k)
		}
		switch f.Kind() {
		case reflect.Bool:
			f.SetBool(x != 0)
		case reflect.Int:
			f.SetInt(int64(x))
		}
	}
}

// String renders the vector deterministically.
func (v SettingsVec) String() string {
	keys := make([]string, 0, len(v))
	for k := range v {
		keys = append(keys, k)
	}
	sort.Strings(keys)
	s := ""
	for _, k := range keys {
		s += fmt.Sprintf("%s=%d ", k, v[k])
	}
	return s
}

// SearchBoolSwitches lists the boolean feature switches of the search configuration
// (everything except the opening book and ponder announcements).
func SearchBoolSwitches() []string {
	var out []string
	rv := reflect.ValueOf(&config.Settings.Search).Elem()
	for i := 0; i < rv.NumField(); i++ {
		name := rv.Type().Field(i).Name
		if rv.Field(i).Kind() == reflect.Bool && name != "UseBook" && name != "UsePonder" {
			out = append(out, name)
		}
	}
	return out
}

// PlayableFrom checks that pv is a sequence of legal moves from p; returns the index of the first
// illegal move or -1.
func PlayableFrom(p rc.Pos, pv []types.Move) int {
	for i, em := range pv {
		m := FromEngine(em)
		lm, ok := p.FindUCI(m.UCI(true))
		if !ok || lm != m {
			return i
		}
		p = p.Make(lm)
	}
	return -1
}

// PvString renders an engine pv.
func PvString(pv []types.Move) string {
	s := ""
	for _, m := range pv {
		s += m.StringUci() + " "
	}
	return s
}
