package props

import (
	"fmt"
	"testing"

	"github.com/frankkopp/FrankyGo/internal/movegen"
	"github.com/frankkopp/FrankyGo/internal/position"
	"github.com/frankkopp/FrankyGo/verifharness/hx"
	rc "github.com/frankkopp/FrankyGo/verifharness/refchess"
	"pgregory.net/rapid"
)

// ---------------------------------------------------------------------------
// C01 — legal move generation is exactly the rules of chess; perft.
// ---------------------------------------------------------------------------

// compareLegal compares the engine's legal move list on ep with the reference.
func compareLegal(id string, mg *movegen.Movegen, ep *position.Position, rp *rc.Pos, how string) *hx.Failure {
	got := hx.MovesOf(mg.GenerateLegalMoves(ep, movegen.GenAll))
	want := rp.Legal()
	missing, extra, dup := hx.MoveSetDiff(got, want)
	if len(missing)+len(extra)+len(dup) == 0 {
		return nil
	}
	kind := func(ms []rc.Move) string {
		k := map[int]string{rc.Normal: "normal", rc.Promotion: "promotion", rc.EnPassant: "ep", rc.Castling: "castling"}
		return k[ms[0].Kind]
	}
	switch {
	case len(missing) > 0:
		return hx.Failf(id+"/legal-moves/missing-"+kind(missing), "%s: %s (%s): missing %s (extra %s, dup %s)", how, rp.FEN(), ep.StringFen(), hx.JoinMoves(missing), hx.JoinMoves(extra), hx.JoinMoves(dup))
	case len(extra) > 0:
		return hx.Failf(id+"/legal-moves/extra-"+kind(extra), "%s: %s: extra %s (dup %s)", how, rp.FEN(), hx.JoinMoves(extra), hx.JoinMoves(dup))
	default:
		return hx.Failf(id+"/legal-moves/duplicate-"+kind(dup), "%s: %s: duplicate %s", how, rp.FEN(), hx.JoinMoves(dup))
	}
}

type treeCase struct {
	Fen   string `json:"fen"`
	Depth int    `json:"depth"`
}

type perftCase struct {
	Fen      string `json:"fen"`
	Depth    int    `json:"depth"`
	OnDemand bool   `json:"on_demand"`
}

func propC01Playout(pl hx.Playout, o *hx.Obs) *hx.Failure {
	poss, moves := pl.Replay()
	ep := hx.NewPos(pl.Start)
	mg := movegen.NewMoveGen()
	for i := range poss {
		rp := &poss[i]
		labels := hx.Classify(rp)
		for _, l := range labels {
			o.Label(l)
		}
		if hx.NonTrivialPos(labels) {
			o.NTKey(rp.FEN4())
		}
		o.Evals(1)
		if f := compareLegal("C01", mg, ep, rp, "reached by play"); f != nil {
			return f
		}
		fresh := hx.NewPos(rp.FEN())
		if f := compareLegal("C01", movegen.NewMoveGen(), fresh, rp, "set up from FEN"); f != nil {
			return f
		}
		if i < len(moves) {
			ep.DoMove(hx.ToEngine(moves[i]))
		}
	}
	return nil
}

// walkTree compares the legal move lists at every node of the depth-d tree.
func walkTree(mgs []*movegen.Movegen, ep *position.Position, rp *rc.Pos, d int, o *hx.Obs) *hx.Failure {
	o.Evals(1)
	labels := hx.Classify(rp)
	if hx.NonTrivialPos(labels) {
		o.NTKey(rp.FEN4())
	}
	if f := compareLegal("C01", mgs[d], ep, rp, "tree node"); f != nil {
		return f
	}
	if d == 0 {
		return nil
	}
	for _, m := range rp.Legal() {
		n := rp.Make(m)
		ep.DoMove(hx.ToEngine(m))
		f := walkTree(mgs, ep, &n, d-1, o)
		ep.UndoMove()
		if f != nil {
			return f
		}
	}
	return nil
}

func propC01Tree(c treeCase, o *hx.Obs) *hx.Failure {
	rp := rc.MustParse(c.Fen)
	ep := hx.NewPos(c.Fen)
	mgs := make([]*movegen.Movegen, c.Depth+1)
	for i := range mgs {
		mgs[i] = movegen.NewMoveGen()
	}
	o.Label(fmt.Sprintf("tree-depth-%d", c.Depth))
	return walkTree(mgs, ep, &rp, c.Depth, o)
}

func propC01Perft(c perftCase, o *hx.Obs) *hx.Failure {
	rp := rc.MustParse(c.Fen)
	want := rp.Perft(c.Depth)
	pf := movegen.NewPerft()
	pf.StartPerft(c.Fen, c.Depth, c.OnDemand)
	if hx.NonTrivialPos(hx.Classify(&rp)) || want > 30 {
		o.NT("")
	}
	o.Label(fmt.Sprintf("perft-depth-%d-od-%v", c.Depth, c.OnDemand))
	if int64(pf.Nodes) != want {
		return hx.Failf(fmt.Sprintf("C01/perft/count-od-%v", c.OnDemand), "%s depth %d onDemand=%v: engine %d, rules %d", c.Fen, c.Depth, c.OnDemand, pf.Nodes, want)
	}
	return nil
}

// positions in which the same position occurs as consecutive nodes of one perft depth (a promotion
// capture with a forced recapture: bxa1=Q Kxa1 and bxa1=N Kxa1 ...), found by the thorough tier
var perftRegressionFENs = []string{
	"8/8/8/8/8/8/Pp1p4/NKnk4 b - - 0 1",
	"4knKN/4P1pP/8/8/8/8/8/8 w - - 0 1",
	"8/8/8/8/8/8/1p6/RK1k4 b - - 0 1",
	"8/8/8/8/8/8/2p5/1R1k3K b - - 0 1",
	"4k1KR/6P1/8/8/8/8/8/8 w - - 0 1",
}

func TestC01(t *testing.T) {
	r := hx.NewRec(t, "C01")
	defer r.Finish()
	r.Assume("refchess oracle (validated against the published perft tables incl. capture/ep/castle/promotion/check sub-counts)")
	r.Assume("domain: legal positions (one king per side, side not to move not in check, consistent castling rights and ep target)")

	hx.Sub(r, "playout", r.N(250, 2500), func(t *rapid.T) hx.Playout {
		return hx.GenPlayout(t, r.N(60, 160), 1)
	}, propC01Playout)

	hx.Sub(r, "constructed", r.N(3000, 40000), func(t *rapid.T) hx.Playout {
		p := hx.GenConstructed(t, 14)
		return hx.Playout{Start: p.FEN()}
	}, propC01Playout)

	// exhaustive trees below the seed corpus
	hx.Enum(r, "tree", true, func(yield func(treeCase) bool) {
		for i, f := range hx.SeedFENs {
			d := 2
			if i < 7 {
				d = 3
			}
			if !r.Quick() {
				d++
			}
			// thorough: shard the corpus
			if !r.Quick() && i%shards() != r.Shard%shards() {
				continue
			}
			if !yield(treeCase{f, d}) {
				return
			}
		}
	}, propC01Tree)

	// saved failing inputs of earlier campaigns, replayed as plain regression cases (both perft variants)
	hx.Enum(r, "perft-regressions", false, func(yield func(perftCase) bool) {
		for _, f := range perftRegressionFENs {
			if q, err := rc.ParseFEN(f); err != nil || q.Validate() != nil {
				panic("harness: invalid regression FEN " + f)
			}
			for _, od := range []bool{true, false} {
				if !yield(perftCase{Fen: f, Depth: 3, OnDemand: od}) {
					return
				}
			}
		}
	}, propC01Perft)

	hx.Sub(r, "perft", r.N(400, 2500), func(t *rapid.T) perftCase {
		p := hx.GenPosition(t)
		d := rapid.IntRange(1, r.N(3, 4)).Draw(t, "depth")
		// few pieces + depth 3-4: many transpositions inside one perft tree (the same position as
		// consecutive nodes of a depth), which is what the on-demand variant has to survive
		if rapid.IntRange(0, 2).Draw(t, "transpositions") == 0 {
			p = hx.GenConstructed(t, 4)
			d = rapid.IntRange(3, 4).Draw(t, "tdepth")
		}
		return perftCase{Fen: p.FEN(), Depth: d, OnDemand: rapid.Bool().Draw(t, "od")}
	}, propC01Perft)
}
