package props

import (
	"fmt"
	"regexp"
	"strings"
	"testing"
	"time"

	"github.com/frankkopp/FrankyGo/internal/config"
	"github.com/frankkopp/FrankyGo/internal/position"
	"github.com/frankkopp/FrankyGo/verifharness/hx"
	rc "github.com/frankkopp/FrankyGo/verifharness/refchess"
	"pgregory.net/rapid"
)

// ---------------------------------------------------------------------------
// C16 (part 2) — every line given to the protocol handler is handled or rejected cleanly.
// ---------------------------------------------------------------------------

type uciLinesCase struct {
	Lines    []string `json:"lines"`
	DelaysMs []int    `json:"delays_ms"`
}

// expectedPositions follows the position-setting commands of the sequence and returns the
// set of FENs the handler may legitimately hold at the end (the reading that cannot raise a
// false alarm: a command that breaks off at an illegal move may keep its legal prefix or be
// ignored as a whole; a line the tokenizer may or may not recognise keeps both outcomes).
func expectedPositions(lines []string) map[string]bool {
	cur := map[string]bool{rc.StartFEN: true}
	for _, line := range lines {
		if len(line) > 60000 {
			continue
		}
		tok := strings.Fields(line)
		if len(tok) == 0 {
			continue
		}
		// exact: printable ASCII tokens separated by single blanks - the only text whose reading as a command is
		// beyond doubt; anything else (leading / unusual white space, control or non-ASCII characters) may be
		// understood or ignored
		exact := plainLine.MatchString(line)
		switch tok[0] {
		case "ucinewgame":
			if exact {
				cur = map[string]bool{rc.StartFEN: true}
			} else {
				cur[rc.StartFEN] = true
			}
		case "position":
			if len(tok) < 2 {
				continue
			}
			var base *rc.Pos
			var baseFen string
			i := 2
			switch tok[1] {
			case "startpos":
				p := rc.MustParse(rc.StartFEN)
				base, baseFen = &p, rc.StartFEN
			case "fen":
				var parts []string
				for i < len(tok) && tok[i] != "moves" {
					parts = append(parts, tok[i])
					i++
				}
				fen := strings.Join(parts, " ")
				var ep *position.Position
				var err error
				if f := hx.Guard("x", func() *hx.Failure { ep, err = position.NewPositionFen(fen); return nil }); f != nil || err != nil || ep == nil {
					continue // rejected: position unchanged
				}
				baseFen = ep.StringFen()
				if p, perr := rc.ParseFEN(baseFen); perr == nil && p.Validate() == nil {
					base = &p
				}
			default:
				continue
			}
			next := map[string]bool{}
			full := true
			if i < len(tok) {
				if tok[i] != "moves" {
					// "position startpos xyz": malformed tail - set or ignored
					next[baseFen] = true
					full = false
				} else if base == nil {
					// moves on a position the oracle cannot follow: any outcome of this command is tolerated
					return nil
				} else {
					p := *base
					for _, ms := range tok[i+1:] {
						m, ok := p.FindUCI(ms)
						if !ok || len(ms) > 5 {
							full = false
							break
						}
						// the move is written in another case than the protocol's (a1B1): it may be read as the
						// move or rejected as unreadable - either way every later token depends on that choice
						if ms[:4] != strings.ToLower(ms[:4]) {
							return nil
						}
						p = p.Make(m)
					}
					baseFen = p.FEN()
				}
			}
			next[baseFen] = true
			if !full || !exact {
				for k := range cur {
					next[k] = true
				}
				// legal prefix of the start as well as the untouched previous positions are tolerated
			}
			cur = next
		}
	}
	return cur
}

var plainLine = regexp.MustCompile(`^[!-~]+( [!-~]+)*$`)

func propC16Uci(c uciLinesCase, o *hx.Obs) *hx.Failure {
	save := config.Settings
	defer func() { config.Settings = save }()
	u := hx.StartUci()
	quit := false
	defer func() {
		if !quit {
			u.Quit(20 * time.Second)
		}
	}()
	faulty := false
	for i, line := range c.Lines {
		u.Send(line)
		if i < len(c.DelaysMs) && c.DelaysMs[i] > 0 {
			time.Sleep(time.Duration(c.DelaysMs[i]) * time.Millisecond)
		}
		if p, st := u.LoopPanicked(); p != nil {
			return hx.Failf("C16/uci/panic/"+firstToken(line), "line %d %q: protocol loop panicked: %v\n%s", i, clip(line), p, st)
		}
		if isFaulty(line) {
			faulty = true
		}
	}
	o.Evals(len(c.Lines))
	// still responsive
	// the sequence itself may contain isready commands that are still queued: the final readyok is
	// the one after all of theirs (a line is an isready command when its first token - split on
	// white space without trimming, as the handler tokenizes - is "isready")
	n := 0
	for _, line := range c.Lines {
		if len(line) > 0 && len(line) < 60000 && regexp.MustCompile(`\s+`).Split(line, -1)[0] == "isready" {
			n++
		}
	}
	u.Send("stop")
	t := u.Send("isready")
	if !u.WaitCount("readyok", n+1, 8*time.Second) {
		if p, st := u.LoopPanicked(); p != nil {
			// find the line: the last one sent is not necessarily the culprit, report the sequence tail
			return hx.Failf("C16/uci/panic/"+firstToken(lastNonEmpty(c.Lines)), "protocol loop panicked: %v (last lines %q)\n%s", p, tailStrings(c.Lines, 3), st)
		}
		return hx.Failf("C16/uci/unresponsive", "after the sequence 'stop; isready' is not answered within %v (last lines %q)", time.Since(t), tailStrings(c.Lines, 3))
	}
	// still holds the last validly set position
	want := expectedPositions(c.Lines)
	got := u.H.VerifPositionFen()
	if want != nil && !want[got] {
		var ws []string
		for k := range want {
			ws = append(ws, k)
		}
		return hx.Failf("C16/uci/position-lost", "after the sequence the handler holds %q, last validly set position(s): %q (last lines %q)", got, ws, tailStrings(c.Lines, 4))
	}
	quit = u.Quit(20 * time.Second)
	if !quit {
		return hx.Failf("C16/uci/quit-hang", "the loop does not end after stop + quit")
	}
	if faulty {
		o.NT("")
		o.Label("sequence-with-fault")
	}
	return nil
}

func firstToken(s string) string {
	f := strings.Fields(s)
	if len(f) == 0 {
		return "empty"
	}
	t := f[0]
	if len(t) > 12 {
		t = t[:12]
	}
	for _, k := range []string{"position", "go", "setoption", "isready", "stop", "ucinewgame", "uci", "ponderhit", "perft", "debug", "register"} {
		if t == k {
			return k
		}
	}
	return "other"
}

func clip(s string) string {
	if len(s) > 200 {
		return s[:200] + "..."
	}
	return s
}

func lastNonEmpty(ls []string) string {
	for i := len(ls) - 1; i >= 0; i-- {
		if strings.TrimSpace(ls[i]) != "" {
			return ls[i]
		}
	}
	return ""
}

func tailStrings(ls []string, n int) []string {
	if len(ls) > n {
		ls = ls[len(ls)-n:]
	}
	out := make([]string, len(ls))
	for i, l := range ls {
		out[i] = clip(l)
	}
	return out
}

var validFirst = map[string]bool{"uci": true, "isready": true, "ucinewgame": true, "position": true, "go": true, "stop": true, "ponderhit": true, "setoption": true}

func isFaulty(line string) bool {
	f := strings.Fields(line)
	if len(f) == 0 || !validFirst[f[0]] {
		return true
	}
	return strings.Contains(line, "\x00") || strings.Contains(line, "zz") || strings.HasSuffix(line, " depth") || strings.Contains(line, "-")
}

var hogsExcluded int

// resourceHog: inputs whose only effect is resource exhaustion are outside the property (a hash table of
// gigabytes, deep perft): a Hash value that is not a small number (strconv.Atoi saturates on overflow, the
// handler clamps to the option's maximum of 65000 MB), perft deeper than 3.
func resourceHog(line string) bool {
	f := strings.Fields(line)
	for i := 0; i+1 < len(f); i++ {
		if f[i] == "Hash" {
			for j := i + 1; j < len(f); j++ {
				if f[j] == "value" && j+1 < len(f) {
					v := f[j+1]
					digits := strings.TrimLeft(v, "+")
					allDigits := len(digits) > 0
					for _, c := range digits {
						if c < '0' || c > '9' {
							allDigits = false
						}
					}
					if allDigits && (len(digits) > 2 || digits > "16" && len(digits) == 2) {
						return true
					}
				}
			}
		}
	}
	if len(f) >= 2 && f[0] == "perft" {
		for _, v := range f[1:] {
			if len(v) > 1 || (len(v) == 1 && v[0] > '3' && v[0] <= '9') {
				return true
			}
		}
	}
	return false
}

// genUciLines renders a C12-style session as text and injects faults.
func genUciLines(t *rapid.T, maxLines int) uciLinesCase {
	var c uciLinesCase
	n := rapid.IntRange(1, maxLines).Draw(t, "lines")
	cur := rc.MustParse(rc.StartFEN)
	var posHist []uStep
	restart := false // the last game-level event was a ucinewgame or a position command that must have been rejected
	for i := 0; i < n; i++ {
		var line string
		switch rapid.IntRange(0, 9).Draw(t, "cmd") {
		case 0:
			line = rapid.SampledFrom([]string{"uci", "isready", "ucinewgame", "ucinewgame", "ucinewgame", "stop", "ponderhit", "debug on", "register later", "noop", ""}).Draw(t, "simple")
			if line == "ucinewgame" {
				cur = rc.MustParse(rc.StartFEN)
				restart = true
			}
		case 1, 2:
			var st uStep
			st, cur = genPositionStepAfter(t, posHist, 10, 12, restart)
			restart = false
			posHist = append(posHist, st)
			line = positionLine(st)
		case 3, 4, 5:
			l := hx.GenLimits(t, 4)
			l.StopAfterMs, l.PonderHitAfterMs = -1, -1
			if rapid.IntRange(0, 5).Draw(t, "sm") == 0 && len(cur.Legal()) > 0 {
				l.Moves = genSubset(t, &cur)
			}
			line = goLine(l)
		case 6:
			name := rapid.SampledFrom(optionNames).Draw(t, "opt")
			val := fmt.Sprint(rapid.Bool().Draw(t, "b"))
			if name == "Hash" {
				val = fmt.Sprint(rapid.IntRange(0, 16).Draw(t, "mb"))
			}
			line = "setoption name " + name + " value " + val
		case 7: // hand-written hostile lines (resource-exhaustion inputs excluded)
			line = rapid.SampledFrom([]string{
				"position", "position fen", "position startpos moves", "position startpos moves e2e5", "position startpos moves e2e4 e7e5 zz", "position fen 8/8/8/8/8/8/8/8 w - - 0 1",
				"position fen rnbqkbnrr/pppppppp/8/8/8/8/PPPPPPPP/RNBQKBNR w KQkq - 0 1", "position fen 9/8/8/8/8/8/8/8 w", "position fen 4k3/8/8/8/8/8/8/4K3 w - e1 0 1",
				"position fen 4k3/8/8/8/8/8/8/4K3 w - - x y", "position xyz",
				// the side that has just moved is in check (a following go would capture the king); found by the thorough tier
				"position fen r2q1rk1/pP1p2pp/Q4n2/bbp1p3/Np6/1B3NBn/pPPP1PPP/R3K2R", "position fen 8/b7/6P1/6R1/2K5/8/P7/R3kn2", "position fen 4k3/8/8/8/8/8/8/4RK2 w - - 0 1", "position startpos xyz", "position startpos moves e2e4 moves e7e5",
				"go", "go depth", "go nodes", "go movetime", "go wtime", "go btime 100", "go winc", "go movestogo", "go mate", "go depth x", "go nodes 1e3", "go movetime -5", "go depth -1",
				"go wtime 100 btime 100 movestogo -3", "go searchmoves", "go searchmoves e2e5", "go searchmoves zz depth 2", "go depth 2 searchmoves", "go ponder", "go infinite depth 2 nodes 100",
				"go wtime 0 btime 0", "go nodes -1 depth 3", "go mate 2",
				"setoption", "setoption name", "setoption name Hash", "setoption name Hash value", "setoption name Hash value -5", "setoption name Hash value abc", "setoption value 3",
				"setoption name Foo value 1", "setoption name Use_Hash value maybe", "setoption name Clear Hash", "setoption name Print Config", "setoption name Use_Hash value false",
				"perft 1", "perft x", "perft 2 1", "isready isready", "stop stop", " isready", "\tgo depth 1", "uci\x00", "\x00", "go\x00depth 2", "é", "position startpos moves é2é4",
				// lines of white space only, of every kind a tokenizer may or may not treat as a separator
				" ", "   ", "\t", " \t ", "\v", "\f", "\r", "\u00a0", "\u0085", "\u2003", "\u3000 \u00a0", "\u2028", "go\u2003depth 1", "\u00a0 \u00a0",
				strings.Repeat("go ", 50), "GO DEPTH 2", "Position startpos", "ucinewgame ucinewgame",
			}).Draw(t, "hostile")
		case 8: // mutate a valid line: delete / duplicate / replace a token
			base := rapid.SampledFrom([]string{"position startpos moves e2e4 e7e5 g1f3", "go depth 3", "go movetime 20", "go wtime 300 btime 300 winc 10 binc 10 movestogo 5",
				"setoption name Hash value 2", "position fen r3k2r/8/8/8/8/8/8/R3K2R w KQkq - 0 1 moves e1g1", "go infinite", "go nodes 500"}).Draw(t, "base")
			f := strings.Fields(base)
			k := rapid.IntRange(0, len(f)-1).Draw(t, "at")
			switch rapid.IntRange(0, 3).Draw(t, "mut") {
			case 0:
				f = append(f[:k], f[k+1:]...)
			case 1:
				f = append(f[:k+1], f[k:]...)
			case 2:
				f[k] = rapid.SampledFrom([]string{"zz", "-1", "", "e9e9", "99999999999999999999", "moves", "fen", "value", "depth"}).Draw(t, "repl")
			case 3:
				f[k], f[len(f)-1] = f[len(f)-1], f[k]
			}
			line = strings.Join(f, " ")
		case 9:
			// a bad FEN inside an otherwise valid command
			p := hx.GenStart(t, 8)
			line = "position fen " + mutateFen(t, p.FEN())
		}
		if k := strings.Fields(line); len(k) > 0 && k[0] == "position" && isFaulty(line) {
			restart = true
		}
		if strings.HasPrefix(strings.TrimSpace(line), "quit") || resourceHog(line) {
			hogsExcluded++
			continue
		}
		c.Lines = append(c.Lines, line)
		c.DelaysMs = append(c.DelaysMs, rapid.SampledFrom([]int{0, 0, 0, 1, 3, 8}).Draw(t, "delay"))
	}
	return c
}

func runC16Uci(r *hx.Rec) {
	r.Assume("UCI lines: resource-exhaustion inputs are excluded by construction (Hash > 16 MB, perft > 3, depth > 6, movetime > 300 ms, 'quit'); after every sequence the harness sends 'stop' and 'isready'")
	hx.Sub(r, "uci-lines", r.N(400, 3000), func(t *rapid.T) uciLinesCase { return genUciLines(t, 14) }, propC16Uci)
	r.Excluded("UCI lines whose only effect is resource exhaustion (Hash > 16 MB, perft > 3, quit)", hogsExcluded)
	// saved failing inputs (reported by independent sub-agents / found by the fuzz target), kept as regression cases
	hx.Enum(r, "uci-regressions", false, func(yield func(uciLinesCase) bool) {
		for _, c := range []uciLinesCase{
			// hash switched on while a search that started without a table is running
			{Lines: []string{"setoption name Use_Hash value false", "position startpos", "go infinite", "setoption name Use_Hash value true", "isready"}, DelaysMs: []int{0, 0, 30, 60, 0}},
			{Lines: []string{"setoption name Use_Hash value false", "go depth 6", "setoption name Use_Hash value true", "setoption name Use_QSHash value true"}, DelaysMs: []int{0, 5, 40, 0}},
			// a game of more than 512 plies
			{Lines: []string{"position startpos moves " + strings.TrimSpace(strings.Repeat("g1f3 g8f6 f3g1 f6g8 ", 130)), "isready"}},
			{Lines: []string{"position startpos moves " + strings.TrimSpace(strings.Repeat("g1f3 g8f6 f3g1 f6g8 ", 128)) + " g1f3", "go depth 2"}, DelaysMs: []int{0, 50}},
			// numbers at the edge of the integer range
			{Lines: []string{"position fen 4k3/8/8/8/8/8/8/4K3 w - - 0 4611686018427387904", "go depth 1"}},
			{Lines: []string{"position fen 4k3/8/8/8/8/8/8/4K3 w - - 4611686018427387904 1", "go depth 1"}},
			{Lines: []string{"perft 4611686018427387904", "isready"}, DelaysMs: []int{50, 0}},
			{Lines: []string{"perft -1", "perft 0", "isready"}},
			{Lines: []string{"go depth 4611686018427387904", "stop"}, DelaysMs: []int{20, 0}},
			{Lines: []string{"go nodes 9223372036854775807 movetime 9223372036854775807", "stop"}, DelaysMs: []int{20, 0}},
			{Lines: []string{"go wtime 9223372036854775807 btime 9223372036854775807 winc 9223372036854775807 binc 9223372036854775807 movestogo 9223372036854775807", "stop"}, DelaysMs: []int{20, 0}},
			{Lines: []string{"position startpos moves e2e400", "position startpos moves xxe2e4"}},
			{Lines: []string{"ponderhit", "isready"}},
		} {
			if !yield(c) {
				return
			}
		}
	}, propC16Uci)
	// one over-long line (longer than the default 64 kB scanner buffer)
	hx.Enum(r, "uci-long-line", false, func(yield func(uciLinesCase) bool) {
		yield(uciLinesCase{Lines: []string{"position startpos moves e2e4", "position startpos moves " + strings.Repeat("e2e4 ", 14000), "isready"}})
	}, propC16Uci)
}

// fuzzUciCase turns raw fuzzer text into a line sequence; ok=false for inputs outside the domain (too long,
// 'quit', resource-exhaustion commands, isready look-alikes that make the final synchronisation ambiguous).
func fuzzUciCase(s string) (uciLinesCase, bool) {
	var c uciLinesCase
	if len(s) > 700 {
		return c, false
	}
	lines := strings.Split(s, "\n")
	if len(lines) > 12 {
		return c, false
	}
	for _, line := range lines {
		f := strings.Fields(line)
		if strings.HasPrefix(strings.TrimSpace(line), "quit") || resourceHog(line) {
			return c, false
		}
		if len(f) > 0 && f[0] == "quit" {
			return c, false
		}
		if len(f) > 0 && f[0] == "isready" && regexp.MustCompile(`\s+`).Split(line, -1)[0] != "isready" {
			return c, false
		}
		if strings.ContainsAny(line, "\r") {
			return c, false // the line reader may or may not strip it: reading of the line is ambiguous
		}
		for i, t := range f {
			// a search that cannot be ended by the closing 'stop' within the allowance: perft is not stoppable by stop
			if t == "perft" && i == 0 && len(f) > 1 {
				for _, v := range f[1:] {
					if v != "1" && v != "2" {
						return c, false
					}
				}
			}
		}
	}
	c.Lines = lines
	return c, true
}

// FuzzC16Uci is the coverage-guided variant of the uci-lines check (thorough tier, native go fuzzing): raw text,
// split into lines, is fed to a fresh protocol loop; the oracle is the one of propC16Uci (no panic in any
// goroutine, 'stop; isready' still answered, the handler still holds the last validly set position).
func FuzzC16Uci(f *testing.F) {
	for _, s := range []string{
		"position startpos moves e2e4 e7e5\ngo depth 2\nisready",
		"uci\nsetoption name Hash value 2\nucinewgame\nposition fen r3k2r/8/8/8/8/8/8/R3K2R w KQkq - 0 1 moves e1g1\ngo nodes 300",
		"position fen 4k3/8/8/8/8/8/8/4K3 w - e1 0 1\ngo infinite\nstop",
		"go wtime 300 btime 300 winc 10 binc 10 movestogo 5\nponderhit\nstop",
		"position startpos moves e2e5\ngo searchmoves e2e4 depth 1",
		"setoption name Use_Hash value false\nsetoption name Clear Hash\ngo ponder\nisready\nponderhit",
		"position\nposition fen\ngo depth\nsetoption name Hash value -5\n \n\t\n\x00",
		"position fen 8/b7/6P1/6R1/2K5/8/P7/R3kn2\ngo depth 1",
		"position fen 8/6q1/8/4P1P1/8/8/8/1k2r1K1 w Qk - 0 111\ngo depth 3",
		"perft 1\ngo mate 2\ndebug on\nregister later\nnoop",
	} {
		f.Add(s)
	}
	f.Fuzz(func(t *testing.T, s string) {
		c, ok := fuzzUciCase(s)
		if !ok {
			return
		}
		o := &hx.Obs{}
		if fail := hx.Guard("C16/uci", func() *hx.Failure { return propC16Uci(c, o) }); fail != nil {
			t.Fatalf("%s\n%s", fail.Sig, fail.Msg)
		}
	})
}
