package props

import (
	"fmt"
	"math/bits"
	"testing"

	. "github.com/frankkopp/FrankyGo/internal/types"
	"github.com/frankkopp/FrankyGo/verifharness/hx"
	"pgregory.net/rapid"
)

// ---------------------------------------------------------------------------
// C18 — precomputed bitboard tables equal their geometric definitions.
// Reference: slow (file,rank) arithmetic below; nothing shared with the engine.
// ---------------------------------------------------------------------------

func gBit(f, r int) uint64 { return 1 << uint(r*8+f) }
func gOn(f, r int) bool    { return f >= 0 && f < 8 && r >= 0 && r < 8 }

var gRookDirs = [][2]int{{0, 1}, {1, 0}, {0, -1}, {-1, 0}}
var gBishopDirs = [][2]int{{1, 1}, {1, -1}, {-1, -1}, {-1, 1}}
var gKnight = [][2]int{{1, 2}, {2, 1}, {2, -1}, {1, -2}, {-1, -2}, {-2, -1}, {-2, 1}, {-1, 2}}
var gKing = [][2]int{{0, 1}, {1, 1}, {1, 0}, {1, -1}, {0, -1}, {-1, -1}, {-1, 0}, {-1, 1}}

// gSlide: squares reachable from sq along dirs, stopping at (and including) the first blocker.
func gSlide(sq int, dirs [][2]int, occ uint64) uint64 {
	var a uint64
	f0, r0 := sq&7, sq>>3
	for _, d := range dirs {
		f, r := f0+d[0], r0+d[1]
		for gOn(f, r) {
			a |= gBit(f, r)
			if occ&gBit(f, r) != 0 {
				break
			}
			f, r = f+d[0], r+d[1]
		}
	}
	return a
}

func gStep(sq int, steps [][2]int) uint64 {
	var a uint64
	for _, d := range steps {
		if gOn(sq&7+d[0], sq>>3+d[1]) {
			a |= gBit(sq&7+d[0], sq>>3+d[1])
		}
	}
	return a
}

// gRay: all squares from sq (exclusive) in direction (df,dr) to the edge.
func gRay(sq, df, dr int) uint64 {
	var a uint64
	f, r := sq&7+df, sq>>3+dr
	for gOn(f, r) {
		a |= gBit(f, r)
		f, r = f+df, r+dr
	}
	return a
}

func sgn(x int) int {
	switch {
	case x > 0:
		return 1
	case x < 0:
		return -1
	}
	return 0
}

// gBetween: squares strictly between a and b if they share a line, else empty.
func gBetween(a, b int) uint64 {
	df, dr := b&7-a&7, b>>3-a>>3
	if a == b || !(df == 0 || dr == 0 || df == dr || df == -dr) {
		return 0
	}
	var s uint64
	f, r := a&7+sgn(df), a>>3+sgn(dr)
	for f != b&7 || r != b>>3 {
		s |= gBit(f, r)
		f, r = f+sgn(df), r+sgn(dr)
	}
	return s
}

func gShift(b uint64, df, dr int) uint64 {
	var a uint64
	for sq := 0; sq < 64; sq++ {
		if b&(1<<uint(sq)) != 0 && gOn(sq&7+df, sq>>3+dr) {
			a |= gBit(sq&7+df, sq>>3+dr)
		}
	}
	return a
}

func absInt(x int) int {
	if x < 0 {
		return -x
	}
	return x
}
func maxInt(a, b int) int {
	if a > b {
		return a
	}
	return b
}

// subsetOf spreads the low bits of idx over the set bits of mask.
func subsetOf(mask uint64, idx uint64) uint64 {
	var s uint64
	for m := mask; m != 0; m &= m - 1 {
		if idx&1 != 0 {
			s |= m & -m
		}
		idx >>= 1
	}
	return s
}

func mix64(x uint64) uint64 {
	x += 0x9e3779b97f4a7c15
	x = (x ^ (x >> 30)) * 0xbf58476d1ce4e5b9
	x = (x ^ (x >> 27)) * 0x94d049bb133111eb
	return x ^ (x >> 31)
}

type tableCase struct {
	Table  string `json:"table"`
	Square int    `json:"square"`
	Occ    uint64 `json:"occupancy,omitempty"`
}

var dirDelta = map[Direction][2]int{North: {0, 1}, East: {1, 0}, South: {0, -1}, West: {-1, 0}, Northeast: {1, 1}, Southeast: {1, -1}, Southwest: {-1, -1}, Northwest: {-1, 1}}
var oriDelta = map[Orientation][2]int{N: {0, 1}, E: {1, 0}, S: {0, -1}, W: {-1, 0}, NE: {1, 1}, SE: {1, -1}, SW: {-1, -1}, NW: {-1, 1}}

func bbStr(b uint64) string { return fmt.Sprintf("%016x", b) }

// checkSliding compares rook, bishop and queen attacks for one square and occupancy.
func checkSliding(sq int, occ uint64) *hx.Failure {
	wr, wb := gSlide(sq, gRookDirs, occ), gSlide(sq, gBishopDirs, occ)
	if g := uint64(GetAttacksBb(Rook, Square(sq), Bitboard(occ))); g != wr {
		return hx.Failf("C18/sliding/rook", "GetAttacksBb(Rook,%s,%s)=%s want %s", Square(sq).String(), bbStr(occ), bbStr(g), bbStr(wr))
	}
	if g := uint64(GetAttacksBb(Bishop, Square(sq), Bitboard(occ))); g != wb {
		return hx.Failf("C18/sliding/bishop", "GetAttacksBb(Bishop,%s,%s)=%s want %s", Square(sq).String(), bbStr(occ), bbStr(g), bbStr(wb))
	}
	if g := uint64(GetAttacksBb(Queen, Square(sq), Bitboard(occ))); g != wr|wb {
		return hx.Failf("C18/sliding/queen", "GetAttacksBb(Queen,%s,%s)=%s want %s", Square(sq).String(), bbStr(occ), bbStr(g), bbStr(wr|wb))
	}
	return nil
}

func propC18(c tableCase, o *hx.Obs) *hx.Failure {
	sq := c.Square
	S := Square(sq)
	f0, r0 := sq&7, sq>>3
	switch c.Table {
	case "sliding-lines":
		// every subset of the square's empty-board rook lines and of its bishop lines,
		// plain, with the own square set, and padded with pseudo-random occupancy elsewhere
		rl, bl := gSlide(sq, gRookDirs, 0), gSlide(sq, gBishopDirs, 0)
		n := int64(0)
		for _, line := range []uint64{rl, bl} {
			cnt := uint64(1) << uint(bits.OnesCount64(line))
			for i := uint64(0); i < cnt; i++ {
				sub := subsetOf(line, i)
				// noise everywhere except on the enumerated lines (attacks must ignore it)
				pad := mix64(uint64(sq)<<32^i^c.Occ) &^ line &^ (1 << uint(sq))
				for _, occ := range []uint64{sub, sub | 1<<uint(sq), sub | pad, sub | pad | 1<<uint(sq)} {
					if f := checkSliding(sq, occ); f != nil {
						return f
					}
				}
				n++
			}
		}
		o.Evals(int(n) * 4 * 3)
		o.NTBulk(fmt.Sprintf("sliding-%d", sq), n-2) // all subsets except the two empty ones have a blocker on a line
	case "sliding-random":
		if f := checkSliding(sq, c.Occ); f != nil {
			return f
		}
		if c.Occ&(gSlide(sq, gRookDirs, 0)|gSlide(sq, gBishopDirs, 0)) != 0 {
			o.NT("")
		}
	case "steppers":
		if g := uint64(GetAttacksBb(Knight, S, Bitboard(c.Occ))); g != gStep(sq, gKnight) {
			return hx.Failf("C18/attacks/knight", "knight attacks %s = %s want %s", S.String(), bbStr(g), bbStr(gStep(sq, gKnight)))
		}
		if g := uint64(GetAttacksBb(King, S, Bitboard(c.Occ))); g != gStep(sq, gKing) {
			return hx.Failf("C18/attacks/king", "king attacks %s = %s want %s", S.String(), bbStr(g), bbStr(gStep(sq, gKing)))
		}
		want := map[PieceType]uint64{Knight: gStep(sq, gKnight), King: gStep(sq, gKing), Rook: gSlide(sq, gRookDirs, 0), Bishop: gSlide(sq, gBishopDirs, 0)}
		want[Queen] = want[Rook] | want[Bishop]
		for pt, w := range want {
			if g := uint64(GetPseudoAttacks(pt, S)); g != w {
				return hx.Failf("C18/attacks/pseudo-"+pt.String(), "GetPseudoAttacks(%s,%s)=%s want %s", pt.String(), S.String(), bbStr(g), bbStr(w))
			}
		}
		if g := uint64(GetPawnAttacks(White, S)); g != gStep(sq, [][2]int{{-1, 1}, {1, 1}}) {
			return hx.Failf("C18/attacks/pawn-white", "GetPawnAttacks(White,%s)=%s", S.String(), bbStr(g))
		}
		if g := uint64(GetPawnAttacks(Black, S)); g != gStep(sq, [][2]int{{-1, -1}, {1, -1}}) {
			return hx.Failf("C18/attacks/pawn-black", "GetPawnAttacks(Black,%s)=%s", S.String(), bbStr(g))
		}
		o.Evals(9)
		o.NT("")
	case "rays-and-steps":
		for ori, d := range oriDelta {
			if g := uint64(S.Ray(ori)); g != gRay(sq, d[0], d[1]) {
				return hx.Failf("C18/rays/"+ori.String(), "%s.Ray(%s)=%s want %s", S.String(), ori.String(), bbStr(g), bbStr(gRay(sq, d[0], d[1])))
			}
		}
		for dir, d := range dirDelta {
			want := 64
			if gOn(f0+d[0], r0+d[1]) {
				want = (r0+d[1])*8 + f0 + d[0]
			}
			if g := int(S.To(dir)); g != want {
				return hx.Failf("C18/square-to/"+dir.String(), "%s.To(%s)=%d want %d", S.String(), dir.String(), g, want)
			}
			// single-bit board shift
			if g := uint64(ShiftBitboard(S.Bb(), dir)); g != gShift(1<<uint(sq), d[0], d[1]) {
				return hx.Failf("C18/shift/"+dir.String(), "ShiftBitboard(%s,%s)=%s", S.String(), dir.String(), bbStr(g))
			}
		}
		o.Evals(24)
		o.NT("")
	case "pairs":
		for b := 0; b < 64; b++ {
			w := gBetween(sq, b)
			if g := uint64(Intermediate(S, Square(b))); g != w {
				return hx.Failf("C18/intermediate", "Intermediate(%s,%s)=%s want %s", S.String(), Square(b).String(), bbStr(g), bbStr(w))
			}
			if g := uint64(S.Intermediate(Square(b))); g != w {
				return hx.Failf("C18/intermediate", "%s.Intermediate(%s)=%s want %s", S.String(), Square(b).String(), bbStr(g), bbStr(w))
			}
			wd := maxInt(absInt(sq&7-b&7), absInt(sq>>3-b>>3))
			if g := SquareDistance(S, Square(b)); g != wd {
				return hx.Failf("C18/square-distance", "SquareDistance(%s,%s)=%d want %d", S.String(), Square(b).String(), g, wd)
			}
			if g := FileDistance(S.FileOf(), Square(b).FileOf()); g != absInt(sq&7-b&7) {
				return hx.Failf("C18/file-distance", "FileDistance(%s,%s)=%d", S.String(), Square(b).String(), g)
			}
			if g := RankDistance(S.RankOf(), Square(b).RankOf()); g != absInt(sq>>3-b>>3) {
				return hx.Failf("C18/rank-distance", "RankDistance(%s,%s)=%d", S.String(), Square(b).String(), g)
			}
		}
		o.Evals(64 * 5)
		o.NTBulk(fmt.Sprintf("pairs-%d", sq), 64)
	case "masks":
		var west, east, north, south, fw, fe uint64
		for f := 0; f < 8; f++ {
			for r := 0; r < 8; r++ {
				if f < f0 {
					west |= gBit(f, r)
				}
				if f > f0 {
					east |= gBit(f, r)
				}
				if r > r0 {
					north |= gBit(f, r)
				}
				if r < r0 {
					south |= gBit(f, r)
				}
				if f == f0-1 {
					fw |= gBit(f, r)
				}
				if f == f0+1 {
					fe |= gBit(f, r)
				}
			}
		}
		chk := func(name string, got Bitboard, want uint64) *hx.Failure {
			if uint64(got) != want {
				return hx.Failf("C18/mask/"+name, "%s(%s)=%s want %s", name, S.String(), bbStr(uint64(got)), bbStr(want))
			}
			return nil
		}
		var ppw, ppb, fileBb, rankBb uint64
		for f := f0 - 1; f <= f0+1; f++ {
			for r := 0; r < 8; r++ {
				if gOn(f, r) && r > r0 {
					ppw |= gBit(f, r)
				}
				if gOn(f, r) && r < r0 {
					ppb |= gBit(f, r)
				}
			}
		}
		for i := 0; i < 8; i++ {
			fileBb |= gBit(f0, i)
			rankBb |= gBit(i, r0)
		}
		for _, f := range []*hx.Failure{
			chk("FilesWestMask", S.FilesWestMask(), west), chk("FilesEastMask", S.FilesEastMask(), east),
			chk("RanksNorthMask", S.RanksNorthMask(), north), chk("RanksSouthMask", S.RanksSouthMask(), south),
			chk("FileWestMask", S.FileWestMask(), fw), chk("FileEastMask", S.FileEastMask(), fe),
			chk("NeighbourFilesMask", S.NeighbourFilesMask(), fw|fe),
			chk("PassedPawnMask-white", S.PassedPawnMask(White), ppw), chk("PassedPawnMask-black", S.PassedPawnMask(Black), ppb),
			chk("Square.Bb", S.Bb(), 1<<uint(sq)), chk("File.Bb", S.FileOf().Bb(), fileBb), chk("Rank.Bb", S.RankOf().Bb(), rankBb),
		} {
			if f != nil {
				return f
			}
		}
		// centre distance: Chebyshev distance to the nearest of d4,e4,d5,e5
		cd := 99
		for _, c := range []int{27, 28, 35, 36} {
			if d := maxInt(absInt(sq&7-c&7), absInt(sq>>3-c>>3)); d < cd {
				cd = d
			}
		}
		if g := S.CenterDistance(); g != cd {
			return hx.Failf("C18/center-distance", "%s.CenterDistance()=%d want %d", S.String(), g, cd)
		}
		// castling rights by square
		wantCR := map[int]CastlingRights{4: CastlingWhite, 0: CastlingWhiteOOO, 7: CastlingWhiteOO, 60: CastlingBlack, 56: CastlingBlackOOO, 63: CastlingBlackOO}[sq]
		if g := GetCastlingRights(S); g != wantCR {
			return hx.Failf("C18/castling-rights-by-square", "GetCastlingRights(%s)=%s want %s", S.String(), g.String(), wantCR.String())
		}
		// square colour sets, square<->file/rank
		dark := (f0+r0)%2 == 0
		if SquaresBb(Black).Has(S) != dark || SquaresBb(White).Has(S) == dark {
			return hx.Failf("C18/mask/SquaresBb", "square colour of %s", S.String())
		}
		if int(S.FileOf()) != f0 || int(S.RankOf()) != r0 || SquareOf(File(f0), Rank(r0)) != S || MakeSquare(S.String()) != S {
			return hx.Failf("C18/square-coordinates", "file/rank/SquareOf/MakeSquare of %s", S.String())
		}
		o.Evals(20)
		o.NT("")
	case "shift-random":
		for dir, d := range dirDelta {
			if g := uint64(ShiftBitboard(Bitboard(c.Occ), dir)); g != gShift(c.Occ, d[0], d[1]) {
				return hx.Failf("C18/shift/"+dir.String(), "ShiftBitboard(%s,%s)=%s want %s", bbStr(c.Occ), dir.String(), bbStr(g), bbStr(gShift(c.Occ, d[0], d[1])))
			}
		}
		// bit helpers
		b := Bitboard(c.Occ)
		if b.PopCount() != bits.OnesCount64(c.Occ) {
			return hx.Failf("C18/bits/popcount", "PopCount(%s)", bbStr(c.Occ))
		}
		if c.Occ != 0 {
			if int(b.Lsb()) != bits.TrailingZeros64(c.Occ) || int(b.Msb()) != 63-bits.LeadingZeros64(c.Occ) {
				return hx.Failf("C18/bits/lsb-msb", "Lsb/Msb(%s)", bbStr(c.Occ))
			}
			cp := b
			if int(cp.PopLsb()) != bits.TrailingZeros64(c.Occ) || uint64(cp) != c.Occ&(c.Occ-1) {
				return hx.Failf("C18/bits/poplsb", "PopLsb(%s)", bbStr(c.Occ))
			}
		}
		o.Evals(12)
		if c.Occ&0xff818181818181ff != 0 {
			o.NT("")
		}
	case "deprecated-lines":
		// the deprecated rank/file/diagonal look-ups, end to end with an arbitrary board
		occ := c.Occ
		lines := []struct {
			name string
			got  Bitboard
			dirs [][2]int
		}{
			{"GetMovesOnRank", GetMovesOnRank(S, Bitboard(occ)), [][2]int{{1, 0}, {-1, 0}}},
			{"GetMovesOnFile", GetMovesOnFile(S, Bitboard(occ)), [][2]int{{0, 1}, {0, -1}}},
			{"GetMovesDiagUp", GetMovesDiagUp(S, Bitboard(occ)), [][2]int{{1, 1}, {-1, -1}}},
			{"GetMovesDiagDown", GetMovesDiagDown(S, Bitboard(occ)), [][2]int{{1, -1}, {-1, 1}}},
		}
		for _, l := range lines {
			if w := gSlide(sq, l.dirs, occ); uint64(l.got) != w {
				return hx.Failf("C18/deprecated/"+l.name, "%s(%s,%s)=%s want %s", l.name, S.String(), bbStr(occ), bbStr(uint64(l.got)), bbStr(w))
			}
		}
		o.Evals(4)
		if occ&(gSlide(sq, gRookDirs, 0)|gSlide(sq, gBishopDirs, 0)) != 0 {
			o.NT("")
		}
	case "constants":
		var kw, kb, qw, qb, center uint64
		kw, kb = gBit(5, 0)|gBit(6, 0)|gBit(7, 0), gBit(5, 7)|gBit(6, 7)|gBit(7, 7)
		qw, qb = gBit(0, 0)|gBit(1, 0)|gBit(2, 0)|gBit(3, 0), gBit(0, 7)|gBit(1, 7)|gBit(2, 7)|gBit(3, 7)
		center = gBit(3, 3) | gBit(4, 3) | gBit(3, 4) | gBit(4, 4)
		if uint64(KingSideCastleMask(White)) != kw || uint64(KingSideCastleMask(Black)) != kb || uint64(QueenSideCastMask(White)) != qw || uint64(QueenSideCastMask(Black)) != qb {
			return hx.Failf("C18/mask/castle-masks", "castle masks")
		}
		if uint64(CenterSquares) != center {
			return hx.Failf("C18/mask/center-squares", "CenterSquares=%s", bbStr(uint64(CenterSquares)))
		}
		o.Evals(5)
		o.NT("")
	}
	return nil
}

func TestC18(t *testing.T) {
	r := hx.NewRec(t, "C18")
	defer r.Finish()
	r.Assume("geometric definitions written with (file,rank) arithmetic in the harness; RotateR90/L90/R45/L45 only checked end to end through the deprecated line look-ups")

	for _, tbl := range []string{"sliding-lines", "steppers", "rays-and-steps", "pairs", "masks"} {
		tbl := tbl
		hx.Enum(r, tbl, true, func(yield func(tableCase) bool) {
			for sq := 0; sq < 64; sq++ {
				if !yield(tableCase{Table: tbl, Square: sq, Occ: uint64(r.Seed)}) {
					return
				}
			}
		}, propC18)
	}
	hx.Enum(r, "constants", true, func(yield func(tableCase) bool) { yield(tableCase{Table: "constants"}) }, propC18)

	genOcc := func(t *rapid.T) uint64 {
		o := rapid.Uint64().Draw(t, "occ")
		// sparse boards are the realistic ones: AND two or three draws together sometimes
		for i := rapid.IntRange(0, 2).Draw(t, "sparse"); i > 0; i-- {
			o &= rapid.Uint64().Draw(t, "occ2")
		}
		return o
	}
	hx.Sub(r, "sliding-random", r.N(20000, 1000000), func(t *rapid.T) tableCase {
		return tableCase{Table: "sliding-random", Square: rapid.IntRange(0, 63).Draw(t, "sq"), Occ: genOcc(t)}
	}, propC18)
	hx.Sub(r, "shift-random", r.N(10000, 300000), func(t *rapid.T) tableCase {
		return tableCase{Table: "shift-random", Occ: genOcc(t)}
	}, propC18)
	hx.Sub(r, "deprecated-lines", r.N(10000, 300000), func(t *rapid.T) tableCase {
		return tableCase{Table: "deprecated-lines", Square: rapid.IntRange(0, 63).Draw(t, "sq"), Occ: genOcc(t)}
	}, propC18)
}
