package props

import (
	"fmt"
	"strings"
	"testing"

	"github.com/frankkopp/FrankyGo/internal/position"
	"github.com/frankkopp/FrankyGo/internal/types"
	"github.com/frankkopp/FrankyGo/verifharness/hx"
	rc "github.com/frankkopp/FrankyGo/verifharness/refchess"
	"pgregory.net/rapid"
)

// ---------------------------------------------------------------------------
// C04 — incremental state equals recomputed state; key is a function of the position.
// ---------------------------------------------------------------------------

var engPieceOfLetter = map[byte]types.Piece{
	'K': types.WhiteKing, 'P': types.WhitePawn, 'N': types.WhiteKnight, 'B': types.WhiteBishop, 'R': types.WhiteRook, 'Q': types.WhiteQueen,
	'k': types.BlackKing, 'p': types.BlackPawn, 'n': types.BlackKnight, 'b': types.BlackBishop, 'r': types.BlackRook, 'q': types.BlackQueen,
}

// checkSums compares the incrementally maintained totals with sums of the published
// per-piece values over the pieces actually on the board.
func checkSums(ep *position.Position, ctx string) *hx.Failure {
	var mat, matNP, mid, end [2]int
	phase := 0
	var occ [2]uint64
	var pcs [2][7]uint64
	king := [2]int{-1, -1}
	for sq := 0; sq < 64; sq++ {
		pc := ep.GetPiece(types.Square(sq))
		if pc == types.PieceNone {
			continue
		}
		c := int(pc.ColorOf())
		pt := pc.TypeOf()
		mat[c] += int(pt.ValueOf())
		if pt != types.Pawn && pt != types.King {
			matNP[c] += int(pt.ValueOf())
		}
		mid[c] += int(types.PosMidValue(pc, types.Square(sq)))
		end[c] += int(types.PosEndValue(pc, types.Square(sq)))
		phase += pt.GamePhaseValue()
		occ[c] |= 1 << uint(sq)
		pcs[c][pt] |= 1 << uint(sq)
		if pt == types.King {
			king[c] = sq
		}
	}
	if phase > types.GamePhaseMax {
		phase = types.GamePhaseMax
	}
	for c := 0; c < 2; c++ {
		col := types.Color(c)
		// Material sums the published value of every piece incl. the king (2000); MaterialNonPawn sums N,B,R,Q
		wantMat := mat[c]
		wantNP := matNP[c]
		if int(ep.Material(col)) != wantMat {
			return hx.Failf("C04/sums/material", "%s: Material(%d)=%d, sum of piece values %d", ctx, c, ep.Material(col), wantMat)
		}
		if int(ep.MaterialNonPawn(col)) != wantNP {
			return hx.Failf("C04/sums/materialNonPawn", "%s: MaterialNonPawn(%d)=%d, sum %d", ctx, c, ep.MaterialNonPawn(col), wantNP)
		}
		if int(ep.PsqMidValue(col)) != mid[c] || int(ep.PsqEndValue(col)) != end[c] {
			return hx.Failf("C04/sums/psq", "%s: Psq(%d)=%d/%d, sums %d/%d", ctx, c, ep.PsqMidValue(col), ep.PsqEndValue(col), mid[c], end[c])
		}
		if uint64(ep.OccupiedBb(col)) != occ[c] {
			return hx.Failf("C04/sums/occupied", "%s: OccupiedBb(%d) differs from board", ctx, c)
		}
		for pt := types.King; pt <= types.Queen; pt++ {
			if uint64(ep.PiecesBb(col, pt)) != pcs[c][pt] {
				return hx.Failf("C04/sums/piecesBb", "%s: PiecesBb(%d,%s) differs from board", ctx, c, pt.String())
			}
		}
		if int(ep.KingSquare(col)) != king[c] {
			return hx.Failf("C04/sums/kingSquare", "%s: KingSquare(%d)=%d board %d", ctx, c, ep.KingSquare(col), king[c])
		}
	}
	if ep.GamePhase() != phase {
		return hx.Failf("C04/sums/gamePhase", "%s: GamePhase()=%d, capped sum of per-piece phase values %d", ctx, ep.GamePhase(), phase)
	}
	if ep.GamePhaseFactor() != float64(phase)/types.GamePhaseMax {
		return hx.Failf("C04/sums/gamePhaseFactor", "%s: GamePhaseFactor()=%v want %v", ctx, ep.GamePhaseFactor(), float64(phase)/types.GamePhaseMax)
	}
	return nil
}

// fenVariants returns other FEN texts that describe the same position as p
// (placement, side, castling rights, ep square): different clocks, and the short
// forms whose defaults coincide.
func fenVariants(p *rc.Pos) []string {
	vs := []string{
		fmt.Sprintf("%s %d %d", p.FEN4(), (p.Half+7)%50, p.Full+3),
		fmt.Sprintf("%s %d", p.FEN4(), p.Half),
		p.FEN4(),
	}
	if p.EP < 0 {
		vs = append(vs, fmt.Sprintf("%s %s %s", p.Placement(), p.SideStr(), p.CastleStr()))
		if p.Castle == [4]bool{} {
			vs = append(vs, fmt.Sprintf("%s %s", p.Placement(), p.SideStr()))
			if p.White {
				vs = append(vs, p.Placement())
			}
		}
	}
	return vs
}

// keyVariants returns legal positions that differ from p in exactly one of
// {side, one castling right, ep presence/file, one piece}.
func keyVariants(p *rc.Pos) (out []rc.Pos, what []string) {
	add := func(q rc.Pos, w string) {
		if q.Validate() == nil && q.FEN4() != p.FEN4() {
			out = append(out, q)
			what = append(what, w)
		}
	}
	q := *p
	q.White = !p.White
	q.EP = -1
	if p.EP < 0 {
		add(q, "side")
	}
	for i := 0; i < 4; i++ {
		if p.Castle[i] {
			q = *p
			q.Castle[i] = false
			add(q, "castling-right")
		}
	}
	if p.EP >= 0 {
		q = *p
		q.EP = -1
		add(q, "ep-presence")
	}
	// another consistent ep file, or an ep square where there was none
	for f := 0; f < 8; f++ {
		q = *p
		if p.White {
			q.EP = rc.Sq(f, 5)
		} else {
			q.EP = rc.Sq(f, 2)
		}
		if q.EP != p.EP {
			if p.EP >= 0 {
				add(q, "ep-file")
			} else {
				add(q, "ep-presence")
			}
		}
	}
	for sq := 0; sq < 64; sq++ {
		if p.B[sq] != 0 && rc.Upper(p.B[sq]) != 'K' {
			q = *p
			q.B[sq] = 0
			// rights / ep may become inconsistent -> Validate filters
			add(q, "piece-removed")
			break
		}
	}
	for sq := 63; sq >= 0; sq-- {
		if p.B[sq] != 0 && rc.Upper(p.B[sq]) != 'K' && rc.Upper(p.B[sq]) != 'P' {
			for to := 0; to < 64; to++ {
				if p.B[to] == 0 {
					q = *p
					q.B[to] = p.B[sq]
					q.B[sq] = 0
					if q.Validate() == nil {
						add(q, "piece-moved")
						break
					}
				}
			}
			break
		}
	}
	return
}

func propC04(pl hx.Playout, o *hx.Obs) *hx.Failure {
	poss, moves := pl.Replay()
	ep := hx.NewPos(pl.Start)
	captures, promos := 0, 0
	keyOf := map[string]uint64{} // repetition signature -> key (all descriptions within this case)
	sigOf := map[uint64]string{}
	note := func(sig string, key uint64, how string) *hx.Failure {
		if k, ok := keyOf[sig]; ok && k != key {
			return hx.Failf("C04/key/equal-positions-different-keys", "%s: position %q has key %x here but %x elsewhere in this history", how, sig, key, k)
		}
		keyOf[sig] = key
		if s, ok := sigOf[key]; ok && s != sig {
			return hx.Failf("C04/key/different-positions-equal-keys", "%s: key %x for both %q and %q", how, key, sig, s)
		}
		sigOf[key] = sig
		return nil
	}
	for i := range poss {
		rp := &poss[i]
		ctx := fmt.Sprintf("after %d plies (%s)", i, rp.FEN())
		inc := hx.Snap(ep)
		o.Evals(1)
		// (1) incrementally maintained == fresh from the current FEN
		fresh, err := position.NewPositionFen(inc.Fen)
		if err != nil || fresh == nil {
			return hx.Failf("C04/fresh/fen-rejected", "%s: engine rejects its own FEN %q", ctx, inc.Fen)
		}
		if d := inc.Diff(hx.Snap(fresh)); d != "" {
			return hx.Failf("C04/incremental-vs-fresh/"+inc.DiffField(hx.Snap(fresh)), "%s: incrementally maintained vs fresh from FEN: %s", ctx, d)
		}
		// (2) totals == sums over the board
		if f := checkSums(ep, ctx); f != nil {
			return f
		}
		if f := note(rp.RepSig(), inc.Key, ctx); f != nil {
			return f
		}
		nt := captures >= 3 || promos > 0
		// (3) other descriptions of the same position
		if i == len(poss)-1 || rp.EP >= 0 || i%8 == 0 {
			for _, v := range fenVariants(rp) {
				vp, err := position.NewPositionFen(v)
				if err != nil || vp == nil {
					return hx.Failf("C04/variant/fen-rejected", "%s: engine rejects FEN %q", ctx, v)
				}
				o.Evals(1)
				if uint64(vp.ZobristKey()) != inc.Key {
					short := "clocks"
					if len(strings.Fields(v)) < 4 {
						short = "short-fen"
					} else if rp.EP >= 0 {
						short = "ep-fen"
					}
					return hx.Failf("C04/key/fen-description-"+short, "%s: key %x, but FEN %q of the same position gives %x", ctx, inc.Key, v, uint64(vp.ZobristKey()))
				}
				if len(strings.Fields(v)) < 4 || rp.EP >= 0 {
					nt = true
				}
			}
			// (4) positions differing in exactly one key component
			vs, what := keyVariants(rp)
			for j, q := range vs {
				vp, err := position.NewPositionFen(q.FEN())
				if err != nil || vp == nil {
					continue
				}
				o.Evals(1)
				o.Label("inequality:" + what[j])
				if uint64(vp.ZobristKey()) == inc.Key {
					return hx.Failf("C04/key/insensitive-to-"+what[j], "%s: %q and %q have the same key %x", ctx, rp.FEN(), q.FEN(), inc.Key)
				}
			}
		}
		if nt {
			o.NTKey(rp.FEN4())
		}
		if i < len(moves) {
			if poss[i].IsCapture(moves[i]) {
				captures++
			}
			if moves[i].Kind == rc.Promotion {
				promos++
			}
			ep.DoMove(hx.ToEngine(moves[i]))
		}
	}
	// transpositions: permute the last four plies
	if n := len(moves); n >= 4 {
		base := poss[n-4]
		a, b, c, d := moves[n-4], moves[n-3], moves[n-2], moves[n-1]
		final := poss[n]
		for _, ord := range [][]rc.Move{{c, b, a, d}, {a, d, c, b}, {c, d, a, b}} {
			q := base
			eq := hx.NewPos(base.FEN())
			ok := true
			for _, m := range ord {
				lm, found := q.FindUCI(m.UCI(true))
				if !found || lm != m {
					ok = false
					break
				}
				eq.DoMove(hx.ToEngine(m))
				q = q.Make(m)
			}
			if ok && q.RepSig() == final.RepSig() && (ord[0] != a || ord[1] != b) {
				o.Label("transposition")
				o.NTKey("transposition:" + final.FEN4())
				o.Evals(1)
				if uint64(eq.ZobristKey()) != uint64(ep.ZobristKey()) {
					return hx.Failf("C04/key/transposition", "from %s: %s and %s reach %q with keys %x vs %x", base.FEN(), hx.JoinMoves([]rc.Move{a, b, c, d}), hx.JoinMoves(ord), final.FEN4(), uint64(ep.ZobristKey()), uint64(eq.ZobristKey()))
				}
			}
		}
	}
	if promos > 0 {
		o.Label("history-with-promotion")
	}
	if captures >= 3 {
		o.Label("history-with->=3-captures")
	}
	return nil
}

// propC04Undo: state after do/undo excursions still equals the recomputed state.
func propC04Undo(c undoCase, o *hx.Obs) *hx.Failure {
	rp := rc.MustParse(c.Start)
	ep := hx.NewPos(c.Start)
	var stack []rc.Pos
	var nulls []bool
	check := func(ctx string) *hx.Failure {
		o.Evals(1)
		inc := hx.Snap(ep)
		fresh := hx.NewPos(inc.Fen)
		if d := inc.Diff(hx.Snap(fresh)); d != "" {
			return hx.Failf("C04/incremental-vs-fresh/"+inc.DiffField(hx.Snap(fresh)), "%s: %s", ctx, d)
		}
		return checkSums(ep, ctx)
	}
	for i, s := range c.Steps {
		switch s.Op {
		case "do":
			m, ok := rp.FindUCI(s.Move)
			if !ok {
				return nil
			}
			stack, nulls = append(stack, rp), append(nulls, false)
			ep.DoMove(hx.ToEngine(m))
			rp = rp.Make(m)
		case "null":
			if rp.InCheck(rp.White) {
				return nil
			}
			stack, nulls = append(stack, rp), append(nulls, true)
			ep.DoNullMove()
			rp = refNull(rp)
		case "undo":
			if len(stack) == 0 {
				continue
			}
			if nulls[len(nulls)-1] {
				ep.UndoNullMove()
			} else {
				ep.UndoMove()
			}
			rp = stack[len(stack)-1]
			stack, nulls = stack[:len(stack)-1], nulls[:len(nulls)-1]
			o.NTKey(fmt.Sprintf("%s|%d", c.Start, i))
		}
		// after a null move the FEN move counters are not a rule-defined position: compare only when no null is pending
		pending := false
		for _, n := range nulls {
			pending = pending || n
		}
		if !pending {
			if f := check(fmt.Sprintf("after step %d (%s %s) at %s", i, s.Op, s.Move, rp.FEN())); f != nil {
				return f
			}
		}
	}
	return nil
}

func TestC04(t *testing.T) {
	r := hx.NewRec(t, "C04")
	defer r.Finish()
	r.Assume("published per-piece values: PieceType.ValueOf (Material includes the king's published value 2000; MaterialNonPawn = knights, bishops, rooks, queens), PosMidValue, PosEndValue, GamePhaseValue capped at GamePhaseMax")
	r.Assume("64-bit collisions between different positions are treated as violations (probability ~ n^2/2^64)")

	hx.Sub(r, "playout", r.N(2500, 8000), func(t *rapid.T) hx.Playout {
		return genClockedPlayout(t, r.N(60, 200), 1)
	}, propC04)

	hx.Sub(r, "constructed", r.N(12000, 60000), func(t *rapid.T) hx.Playout {
		p := hx.GenPosition(t)
		return hx.Playout{Start: p.FEN()}
	}, propC04)

	hx.Sub(r, "excursions", r.N(2000, 8000), func(t *rapid.T) undoCase {
		return genUndoCase(t, r.N(60, 200), 40)
	}, propC04Undo)
}
