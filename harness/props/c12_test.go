package props

import (
	"fmt"
	"reflect"
	"regexp"
	"strings"
	"testing"
	"time"

	"github.com/frankkopp/FrankyGo/internal/config"
	"github.com/frankkopp/FrankyGo/verifharness/hx"
	rc "github.com/frankkopp/FrankyGo/verifharness/refchess"
	"pgregory.net/rapid"
)

// ---------------------------------------------------------------------------
// C12 — UCI session: one bestmove per go, readyok, prompt stop, correct position,
//       ucinewgame == fresh engine, setoption changes exactly the named option.
// ---------------------------------------------------------------------------

type uStep struct {
	Kind    string     `json:"kind"` // uci isready ucinewgame setoption position go stop ponderhit await sleep printconfig raw
	Name    string     `json:"name,omitempty"`
	Value   string     `json:"value,omitempty"`
	Fen     string     `json:"fen,omitempty"` // "" = startpos
	Moves   []string   `json:"moves,omitempty"`
	Limits  hx.LimSpec `json:"limits,omitempty"`
	SleepMs int        `json:"sleep_ms,omitempty"`
	Raw     string     `json:"raw,omitempty"`
}

type uciCase struct {
	Steps []uStep `json:"steps"`
	// microseconds of delay injected (verif hook) after the search has sent its result and before it
	// marks itself as finished: widens the window "new go arriving immediately after a bestmove"
	AfterResultUs int `json:"delay_after_result_us,omitempty"`
}

func goLine(l hx.LimSpec) string {
	var sb strings.Builder
	sb.WriteString("go")
	if l.Mode == "infinite" {
		sb.WriteString(" infinite")
	}
	if l.Mode == "ponder" {
		sb.WriteString(" ponder")
	}
	if l.Depth > 0 {
		fmt.Fprintf(&sb, " depth %d", l.Depth)
	}
	if l.Nodes > 0 {
		fmt.Fprintf(&sb, " nodes %d", l.Nodes)
	}
	if l.MoveTime > 0 {
		fmt.Fprintf(&sb, " movetime %d", l.MoveTime)
	}
	if l.WTime > 0 || l.BTime > 0 {
		fmt.Fprintf(&sb, " wtime %d btime %d winc %d binc %d", l.WTime, l.BTime, l.WInc, l.BInc)
		if l.MovesToGo > 0 {
			fmt.Fprintf(&sb, " movestogo %d", l.MovesToGo)
		}
	}
	if len(l.Moves) > 0 {
		sb.WriteString(" searchmoves " + strings.Join(l.Moves, " "))
	}
	return sb.String()
}

func positionLine(s uStep) string {
	var sb strings.Builder
	if s.Fen == "" {
		sb.WriteString("position startpos")
	} else {
		sb.WriteString("position fen " + s.Fen)
	}
	if len(s.Moves) > 0 {
		sb.WriteString(" moves " + strings.Join(s.Moves, " "))
	}
	return sb.String()
}

// optionField maps every UCI option to the configuration field it is documented to control.
var optionField = map[string]string{
	"Use_Hash": "UseTT", "Hash": "TTSize", "Use_Book": "UseBook", "Ponder": "UsePonder", "Quiescence": "UseQuiescence", "Use_QHash": "UseQSTT",
	"Use_SEE": "UseSEE", "Use_PromNonQuiet": "UsePromNonQuiet", "Use_PVS": "UsePVS", "Use_ASP": "UseAspiration", "Use_MTDf": "UseMTDf",
	"Use_IID": "UseIID", "Use_Killer": "UseKiller", "Use_HistCount": "UseHistoryCounter", "Use_CounterMove": "UseCounterMoves",
	"Use_Rfp": "UseRFP", "Use_NullMove": "UseNullMove", "Use_Mdp": "UseMDP", "Use_Fp": "UseFP", "Use_Lmr": "UseLmr", "Use_Lmp": "UseLmp",
	"Use_Ext": "UseExt", "Use_ExtAddDepth": "UseExtAddDepth", "Use_CheckExt": "UseCheckExt", "Use_ThreatExt": "UseThreatExt",
	"Eval_Lazy": "UseLazyEval", "Eval_Mobility": "UseMobility", "Eval_AdvPiece": "UseAdvancedPieceEval",
	"Clear Hash": "", "Print Config": "",
}

var optionNames = func() []string {
	var n []string
	for k := range optionField {
		n = append(n, k)
	}
	sortStrings(n)
	return n
}()

func sortStrings(s []string) {
	for i := 1; i < len(s); i++ {
		for j := i; j > 0 && s[j] < s[j-1]; j-- {
			s[j], s[j-1] = s[j-1], s[j]
		}
	}
}

// printConfig synchronises with the protocol loop (the engine's own configuration print-out plus
// isready/readyok) and then reads the engine's configuration: every field of the search and evaluation
// settings, by reflection, so that the observation does not depend on the format of the print-out.
func printConfig(u *hx.UciSession) (map[string]string, *hx.Failure) {
	marker := u.Count("readyok")
	u.Send("setoption name Print Config")
	u.Send("isready")
	if !u.WaitCount("readyok", marker+1, 10*time.Second) {
		return nil, hx.Failf("C12/isready/no-readyok", "no readyok after 'setoption name Print Config; isready'")
	}
	cfg := map[string]string{}
	for _, v := range []reflect.Value{reflect.ValueOf(config.Settings.Search), reflect.ValueOf(config.Settings.Eval)} {
		for i := 0; i < v.NumField(); i++ {
			cfg[v.Type().Field(i).Name] = fmt.Sprint(v.Field(i).Interface())
		}
	}
	return cfg, nil
}

type goRecord struct {
	root     rc.Pos
	sent     time.Time
	limits   hx.LimSpec
	stopSent time.Time // zero if never stopped
	hitSent  time.Time
	index    int
}

func propC12(c uciCase, o *hx.Obs) *hx.Failure {
	save := config.Settings
	defer func() { config.Settings = save }()
	installLifecycleHook()
	delays := map[string]int{"result.sent": c.AfterResultUs}
	hookDelays.Store(&delays)
	defer func() { empty := map[string]int{}; hookDelays.Store(&empty) }()
	u := hx.StartUci()
	quitOK := false
	defer func() {
		if !quitOK {
			u.Quit(20 * time.Second)
		}
	}()
	var gos []goRecord
	searching := false
	bestSeen := 0
	_ = bestSeen
	isreadySent := 0
	var curPos rc.Pos = rc.MustParse(rc.StartFEN)
	zeroGap, infOrPonder, setopt, readyDuring := false, false, false, false
	var lastAwait time.Time

	fail := func(f *hx.Failure) *hx.Failure {
		if p, st := u.LoopPanicked(); p != nil {
			return hx.Failf("C12/panic", "protocol loop panicked: %v\n%s", p, st)
		}
		return f
	}
	awaitBest := func(timeout time.Duration) bool {
		ok := u.WaitCount("bestmove", len(gos), timeout)
		if ok {
			searching = false
			bestSeen = len(gos)
			lastAwait = time.Now()
		}
		return ok
	}
	for i, st := range c.Steps {
		switch st.Kind {
		case "uci":
			n := u.Count("uciok")
			u.Send("uci")
			if !u.WaitCount("uciok", n+1, 10*time.Second) {
				return fail(hx.Failf("C12/uci/no-uciok", "step %d: no uciok", i))
			}
		case "isready":
			if searching {
				readyDuring = true
			}
			t := u.Send("isready")
			isreadySent++
			if !u.WaitCount("readyok", isreadySent, 5*time.Second) {
				when := "idle"
				if searching {
					when = "while-searching"
				}
				return fail(hx.Failf("C12/isready/no-readyok-"+when, "step %d: isready sent %v ago is not answered (searching=%v)", i, time.Since(t), searching))
			}
		case "ucinewgame":
			if searching {
				continue // a GUI sends ucinewgame only when no search is running
			}
			u.Send("ucinewgame")
			curPos = rc.MustParse(rc.StartFEN)
		case "setoption":
			if searching {
				continue
			}
			setopt = true
			before, f := printConfig(u)
			isreadySent++
			if f != nil {
				return fail(f)
			}
			line := "setoption name " + st.Name
			if st.Value != "" {
				line += " value " + st.Value
			}
			u.Send(line)
			after, f := printConfig(u)
			isreadySent++
			if f != nil {
				return fail(f)
			}
			field := optionField[st.Name]
			for k, v := range after {
				if before[k] != v && k != field {
					return fail(hx.Failf("C12/setoption/changes-other-option", "step %d: '%s' changed %s from %s to %s", i, line, k, before[k], v))
				}
			}
			if field != "" {
				want := st.Value
				if after[field] != want {
					return fail(hx.Failf("C12/setoption/not-applied", "step %d: '%s': the configuration has %s = %s", i, line, field, after[field]))
				}
			}
			o.Label("setoption:" + st.Name)
		case "position":
			if searching {
				continue
			}
			u.Send(positionLine(st))
			start := rc.MustParse(rc.StartFEN)
			if st.Fen != "" {
				start = rc.MustParse(st.Fen)
			}
			for _, ms := range st.Moves {
				m, ok := start.FindUCI(ms)
				if !ok {
					break
				}
				start = start.Make(m)
			}
			curPos = start
			// synchronise with the loop, then read the handler's position
			u.Send("isready")
			isreadySent++
			if !u.WaitCount("readyok", isreadySent, 5*time.Second) {
				return fail(hx.Failf("C12/isready/no-readyok-idle", "step %d: no readyok after position command", i))
			}
			if got := u.H.VerifPositionFen(); got != curPos.FEN() {
				cls := "startpos"
				if st.Fen != "" {
					cls = "fen"
				}
				return fail(hx.Failf("C12/position/wrong-position-"+cls, "step %d: after '%s' the engine is on %q, the listed moves lead to %q", i, positionLine(st), got, curPos.FEN()))
			}
		case "go":
			if searching {
				continue
			}
			if len(curPos.Legal()) == 0 {
				continue
			}
			l := st.Limits
			// searchmoves must be legal in the current position
			var ok []string
			for _, m := range l.Moves {
				if _, found := curPos.FindUCI(m); found {
					ok = append(ok, m)
				}
			}
			l.Moves = ok
			if !lastAwait.IsZero() && time.Since(lastAwait) < 2*time.Millisecond {
				zeroGap = true
			}
			if l.Mode == "infinite" || l.Mode == "ponder" {
				infOrPonder = true
			}
			t := u.Send(goLine(l))
			gos = append(gos, goRecord{root: curPos, sent: t, limits: l, index: i})
			searching = true
			o.Label("go:" + l.Mode)
		case "stop":
			t := u.Send("stop")
			if searching {
				gos[len(gos)-1].stopSent = t
				if !awaitBest(2 * time.Second) {
					return fail(hx.Failf("C12/stop/not-prompt", "step %d: no bestmove within 2 s after stop (go was '%s')", i, goLine(gos[len(gos)-1].limits)))
				}
			}
		case "ponderhit":
			if searching && gos[len(gos)-1].limits.Mode == "ponder" && gos[len(gos)-1].hitSent.IsZero() {
				gos[len(gos)-1].hitSent = u.Send("ponderhit")
				o.Label("ponderhit")
			}
		case "await":
			if searching {
				g := gos[len(gos)-1]
				self := g.limits.Mode != "infinite" && (g.limits.Mode != "ponder" || !g.hitSent.IsZero())
				if !self {
					continue // would wait forever: an infinite / ponder search is ended by stop
				}
				if !awaitBest(30 * time.Second) {
					return fail(hx.Failf("C12/bestmove/missing-"+g.limits.Mode, "step %d: '%s' was not answered by a bestmove within 30 s; last output: %s", i, goLine(g.limits), tailLines(u.Lines(), 8)))
				}
			}
		case "sleep":
			time.Sleep(time.Duration(st.SleepMs) * time.Millisecond)
		}
		if p, _ := u.LoopPanicked(); p != nil {
			return fail(nil)
		}
		// a bestmove may arrive at any time for self-terminating searches
		if searching && u.Count("bestmove") >= len(gos) {
			g := gos[len(gos)-1]
			if g.limits.Mode == "infinite" || (g.limits.Mode == "ponder" && g.hitSent.IsZero()) {
				return fail(hx.Failf("C12/bestmove/premature-"+g.limits.Mode, "step %d: '%s' was answered by a bestmove before stop%s (previous go: %s)", i, goLine(g.limits), map[bool]string{true: "/ponderhit", false: ""}[g.limits.Mode == "ponder"], prevGo(gos)))
			}
			searching = false
			bestSeen = len(gos)
		}
	}
	// wind down
	if searching {
		g := &gos[len(gos)-1]
		self := g.limits.Mode != "infinite" && (g.limits.Mode != "ponder" || !g.hitSent.IsZero())
		if !self || g.limits.Mode == "depth" {
			if u.Count("bestmove") < len(gos) {
				g.stopSent = u.Send("stop")
			}
		}
		if !awaitBest(30 * time.Second) {
			return fail(hx.Failf("C12/bestmove/missing-"+g.limits.Mode, "final: '%s' was not answered by a bestmove; last output: %s", goLine(g.limits), tailLines(u.Lines(), 8)))
		}
	}
	time.Sleep(30 * time.Millisecond) // late, spurious output
	o.Evals(len(c.Steps))
	// (1) exactly one bestmove per go, in order, none before its go, none premature
	var bests []hx.OutLine
	for _, l := range u.Lines() {
		if strings.HasPrefix(l.Text, "bestmove") {
			bests = append(bests, l)
		}
	}
	if len(bests) != len(gos) {
		return fail(hx.Failf("C12/bestmove/count", "%d go commands, %d bestmove lines (%v)", len(gos), len(bests), tailLines(u.Lines(), 6)))
	}
	for k, g := range gos {
		b := bests[k]
		if b.At.Before(g.sent) {
			return fail(hx.Failf("C12/bestmove/before-go", "bestmove %d arrived before its go", k+1))
		}
		if g.limits.Mode == "infinite" || (g.limits.Mode == "ponder" && g.hitSent.IsZero()) {
			if g.stopSent.IsZero() || b.At.Before(g.stopSent) {
				return fail(hx.Failf("C12/bestmove/premature-"+g.limits.Mode, "'%s' (go %d) answered %v before stop was sent (previous go: %s)", goLine(g.limits), k+1, g.stopSent.Sub(b.At), prevGo(gos[:k+1])))
			}
		}
		if g.limits.Mode == "ponder" && !g.hitSent.IsZero() && b.At.Before(g.hitSent) && (g.stopSent.IsZero() || b.At.Before(g.stopSent)) {
			return fail(hx.Failf("C12/bestmove/premature-ponder", "'%s' answered before ponderhit", goLine(g.limits)))
		}
		f := strings.Fields(b.Text)
		if len(f) < 2 || f[1] == "NoMove" {
			return fail(hx.Failf("C12/bestmove/nomove", "go %d '%s' answered %q", k+1, goLine(g.limits), b.Text))
		}
		// the answer belongs to this go: legal in the position the go was issued on (and in the searchmoves list)
		bm, ok := g.root.FindUCI(f[1])
		if !ok {
			return fail(hx.Failf("C12/bestmove/illegal", "go %d '%s' on %s answered %q", k+1, goLine(g.limits), g.root.FEN(), b.Text))
		}
		if len(g.limits.Moves) > 0 {
			in := false
			for _, m := range g.limits.Moves {
				in = in || strings.EqualFold(m, f[1])
			}
			if !in {
				return fail(hx.Failf("C12/bestmove/not-in-searchmoves", "go %d '%s' answered %q", k+1, goLine(g.limits), b.Text))
			}
		}
		if len(f) >= 4 && f[2] == "ponder" {
			after := g.root.Make(bm)
			if _, ok := after.FindUCI(f[3]); !ok {
				return fail(hx.Failf("C12/bestmove/illegal-ponder", "go %d '%s' on %s answered %q", k+1, goLine(g.limits), g.root.FEN(), b.Text))
			}
		}
	}
	// (2) every isready answered
	if n := u.Count("readyok"); n != isreadySent {
		return fail(hx.Failf("C12/isready/count", "%d isready sent, %d readyok received", isreadySent, n))
	}
	quitOK = u.Quit(20 * time.Second)
	if !quitOK {
		return fail(hx.Failf("C12/quit/hang", "the protocol loop did not end after stop + quit"))
	}
	if zeroGap {
		o.Label("go-immediately-after-bestmove")
	}
	if infOrPonder {
		o.Label("infinite-or-ponder")
	}
	if readyDuring {
		o.Label("isready-while-searching")
	}
	if (len(gos) >= 2 && zeroGap) || infOrPonder || setopt || readyDuring {
		o.NT("")
	}
	return nil
}

func prevGo(gos []goRecord) string {
	if len(gos) < 2 {
		return "none"
	}
	return goLine(gos[len(gos)-2].limits)
}

// genPositionStep draws a position command. Like a GUI during a game it often refers to an earlier one
// of the session: the same line again (a second game from the same opening), the same line extended by
// further moves (the game goes on), or a prefix of it (take-back); otherwise a fresh position.
func genPositionStep(t *rapid.T, hist []uStep, maxPieces, maxPlies int) (uStep, rc.Pos) {
	return genPositionStepAfter(t, hist, maxPieces, maxPlies, false)
}

// genPositionStepAfter: after a ucinewgame (or a rejected position command) the next game often starts with the
// very line an earlier game started with - that case is drawn with a higher weight.
func genPositionStepAfter(t *rapid.T, hist []uStep, maxPieces, maxPlies int, restart bool) (uStep, rc.Pos) {
	final := func(s uStep) rc.Pos {
		start := s.Fen
		if start == "" {
			start = rc.StartFEN
		}
		ps, _ := hx.Playout{Start: start, Moves: s.Moves}.Replay()
		return ps[len(ps)-1]
	}
	if len(hist) > 0 && restart && rapid.Bool().Draw(t, "sameOpening") {
		base := hist[rapid.IntRange(0, len(hist)-1).Draw(t, "opening")]
		st := uStep{Kind: "position", Fen: base.Fen, Moves: append([]string{}, base.Moves...)}
		if len(st.Moves) > 0 && rapid.Bool().Draw(t, "shorter") {
			st.Moves = st.Moves[:rapid.IntRange(0, len(st.Moves)).Draw(t, "openingLen")]
		}
		return st, final(st)
	}
	if len(hist) > 0 && rapid.IntRange(0, 2).Draw(t, "related") == 0 {
		base := hist[rapid.IntRange(0, len(hist)-1).Draw(t, "earlier")]
		st := uStep{Kind: "position", Fen: base.Fen, Moves: append([]string{}, base.Moves...)}
		switch rapid.IntRange(0, 3).Draw(t, "relation") {
		case 0, 1: // the game goes on
			pl := hx.GenPlayoutFrom(t, final(st), 3, 1)
			st.Moves = append(st.Moves, pl.Moves...)
		case 2: // take-back
			if len(st.Moves) > 0 {
				st.Moves = st.Moves[:rapid.IntRange(0, len(st.Moves)-1).Draw(t, "keep")]
			}
		}
		return st, final(st)
	}
	st := uStep{Kind: "position"}
	p := rc.MustParse(rc.StartFEN)
	if rapid.Bool().Draw(t, "fromFen") {
		p = hx.GenStart(t, maxPieces)
		st.Fen = p.FEN()
	}
	// a GUI sends the whole game so far: now and then a long move list
	if rapid.IntRange(0, 3).Draw(t, "longGame") == 0 {
		maxPlies *= 8
	}
	pl := hx.GenPlayoutFrom(t, p, maxPlies, 1)
	st.Moves = pl.Moves
	ps, _ := pl.Replay()
	return st, ps[len(ps)-1]
}

func genUciCase(t *rapid.T, maxSteps int) uciCase {
	var c uciCase
	c.AfterResultUs = rapid.SampledFrom([]int{0, 0, 200, 1000, 3000}).Draw(t, "afterResultUs")
	c.Steps = append(c.Steps, uStep{Kind: "uci"}, uStep{Kind: "isready"})
	n := rapid.IntRange(2, maxSteps).Draw(t, "steps")
	cur := rc.MustParse(rc.StartFEN)
	searching, mode := false, ""
	hit := false
	var posHist []uStep
	afterNewGame := false
	for i := 0; i < n; i++ {
		var kinds []string
		if searching {
			kinds = []string{"stop", "stop", "isready", "sleep", "await", "await"}
			if mode == "ponder" && !hit {
				kinds = append(kinds, "ponderhit", "ponderhit")
			}
		} else {
			kinds = []string{"go", "go", "go", "go", "position", "position", "setoption", "isready", "ucinewgame", "sleep"}
		}
		k := rapid.SampledFrom(kinds).Draw(t, "kind")
		switch k {
		case "go":
			if len(cur.Legal()) == 0 {
				continue
			}
			l := hx.GenLimits(t, 4)
			l.StopAfterMs, l.PonderHitAfterMs = -1, -1
			if rapid.IntRange(0, 5).Draw(t, "withSearchmoves") == 0 {
				l.Moves = genSubset(t, &cur)
			}
			c.Steps = append(c.Steps, uStep{Kind: "go", Limits: l})
			searching, mode, hit = true, l.Mode, false
		case "stop":
			c.Steps = append(c.Steps, uStep{Kind: "stop"})
			searching = false
		case "await":
			if mode == "infinite" || (mode == "ponder" && !hit) {
				continue
			}
			c.Steps = append(c.Steps, uStep{Kind: "await"})
			searching = false
		case "ponderhit":
			c.Steps = append(c.Steps, uStep{Kind: "ponderhit"})
			hit = true
		case "isready":
			c.Steps = append(c.Steps, uStep{Kind: "isready"})
		case "sleep":
			c.Steps = append(c.Steps, uStep{Kind: "sleep", SleepMs: rapid.IntRange(0, 30).Draw(t, "ms")})
		case "ucinewgame":
			c.Steps = append(c.Steps, uStep{Kind: "ucinewgame"})
			cur = rc.MustParse(rc.StartFEN)
			afterNewGame = true
		case "position":
			var st uStep
			st, cur = genPositionStepAfter(t, posHist, 12, 20, afterNewGame)
			afterNewGame = false
			posHist = append(posHist, st)
			c.Steps = append(c.Steps, st)
		case "setoption":
			name := rapid.SampledFrom(optionNames).Draw(t, "opt")
			val := ""
			switch {
			case optionField[name] == "":
			case name == "Hash":
				val = fmt.Sprint(rapid.IntRange(0, 8).Draw(t, "hashMB"))
			default:
				val = fmt.Sprint(rapid.Bool().Draw(t, "bool"))
			}
			c.Steps = append(c.Steps, uStep{Kind: "setoption", Name: name, Value: val})
		}
	}
	return c
}

// ---- (5) ucinewgame == fresh engine -----------------------------------------

type newGameCase struct {
	Warmup []uStep  `json:"warmup"`
	Fen    string   `json:"fen"`
	Moves  []string `json:"moves"`
	Depth  int      `json:"depth"`
	Opts   []uStep  `json:"options"` // applied to both engines before anything else
}

// the node count is part of the compared stream: a fixed-depth search is deterministic, so an engine in the
// state of a fresh one visits exactly the same number of nodes (nps and time are wall-clock values)
var infoLine = regexp.MustCompile(`^info depth (\d+) seldepth \d+ multipv 1 score (.+?) nodes (\d+) nps \d+ time \d+ pv (.*)$`)

func searchStream(u *hx.UciSession, from int) (stream []string, best string) {
	for _, l := range u.Lines()[from:] {
		if m := infoLine.FindStringSubmatch(l.Text); m != nil {
			stream = append(stream, fmt.Sprintf("depth %s score %s nodes %s pv %s", m[1], m[2], m[3], strings.TrimSpace(m[4])))
		}
		if strings.HasPrefix(l.Text, "bestmove") {
			best = l.Text
		}
	}
	return
}

func propC12NewGame(c newGameCase, o *hx.Obs) *hx.Failure {
	save := config.Settings
	defer func() { config.Settings = save }()
	run := func(warm bool) ([]string, string, *hx.Failure) {
		config.Settings = save
		u := hx.StartUci()
		defer u.Quit(20 * time.Second)
		ready := 0
		sync := func() bool {
			u.Send("isready")
			ready++
			return u.WaitCount("readyok", ready, 10*time.Second)
		}
		for _, s := range c.Opts {
			u.Send("setoption name " + s.Name + " value " + s.Value)
		}
		if warm {
			gos := 0
			for _, s := range c.Warmup {
				switch s.Kind {
				case "position":
					u.Send(positionLine(s))
				case "go":
					l := s.Limits
					l.Moves = nil
					u.Send(goLine(l))
					gos++
					if l.Mode == "infinite" || l.Mode == "ponder" {
						time.Sleep(10 * time.Millisecond)
						u.Send("stop")
					}
					if !u.WaitCount("bestmove", gos, 30*time.Second) {
						return nil, "", hx.Failf("C12/newgame/warmup-no-bestmove", "warm-up '%s' not answered", goLine(l))
					}
				}
			}
			u.Send("ucinewgame")
		}
		if !sync() {
			return nil, "", hx.Failf("C12/isready/no-readyok-idle", "no readyok")
		}
		from := len(u.Lines())
		n := u.Count("bestmove")
		u.Send(positionLine(uStep{Fen: c.Fen, Moves: c.Moves}))
		u.Send(fmt.Sprintf("go depth %d", c.Depth))
		if !u.WaitCount("bestmove", n+1, 60*time.Second) {
			if p, st := u.LoopPanicked(); p != nil {
				return nil, "", hx.Failf("C12/panic", "%v\n%s", p, st)
			}
			return nil, "", hx.Failf("C12/bestmove/missing-depth", "go depth %d not answered", c.Depth)
		}
		s, b := searchStream(u, from)
		return s, b, nil
	}
	fs, fb, f := run(false)
	if f != nil {
		return f
	}
	ws, wb, f := run(true)
	if f != nil {
		return f
	}
	o.Evals(2)
	opts := ""
	for _, s := range c.Opts {
		opts += s.Name + "=" + s.Value + " "
	}
	if fb != wb {
		return hx.Failf("C12/newgame/bestmove-differs", "position %s %v depth %d [%s]: fresh engine '%s', after warm-up + ucinewgame '%s'", c.Fen, c.Moves, c.Depth, opts, fb, wb)
	}
	if strings.Join(fs, "\n") != strings.Join(ws, "\n") {
		return hx.Failf("C12/newgame/iteration-stream-differs", "position %s %v depth %d [%s]:\nfresh:\n%s\nafter ucinewgame:\n%s", c.Fen, c.Moves, c.Depth, opts, strings.Join(fs, "\n"), strings.Join(ws, "\n"))
	}
	if len(c.Warmup) > 0 {
		o.NT("")
	}
	if len(c.Opts) > 0 {
		o.Label("newgame-with-options:" + opts)
	}
	return nil
}

// ---- setoption: every option, both values ------------------------------------------------------
// One session without searches: each option is set to a value and back in a drawn order; after every
// command exactly the configuration field the option is documented to control has the given value
// and no other field of the search / evaluation configuration has changed.

type optionsCase struct {
	Steps []uStep `json:"steps"` // Kind "setoption"
}

func propC12Options(c optionsCase, o *hx.Obs) *hx.Failure {
	save := config.Settings
	defer func() { config.Settings = save }()
	u := hx.StartUci()
	defer u.Quit(20 * time.Second)
	for i, st := range c.Steps {
		before, f := printConfig(u)
		if f != nil {
			return f
		}
		line := "setoption name " + st.Name
		if st.Value != "" {
			line += " value " + st.Value
		}
		u.Send(line)
		after, f := printConfig(u)
		if f != nil {
			return f
		}
		if p, stk := u.LoopPanicked(); p != nil {
			return hx.Failf("C12/panic", "'%s': %v\n%s", line, p, stk)
		}
		field := optionField[st.Name]
		for k, v := range after {
			if before[k] != v && k != field {
				return hx.Failf("C12/setoption/changes-other-option", "step %d: '%s' changed %s from %s to %s", i, line, k, before[k], v)
			}
		}
		if field != "" && after[field] != st.Value {
			return hx.Failf("C12/setoption/not-applied", "step %d: '%s': the configuration has %s = %s", i, line, field, after[field])
		}
		o.Evals(1)
		if field != "" && before[field] != after[field] {
			o.NTKey(line)
		}
	}
	return nil
}

func genOptionsCase(t *rapid.T) optionsCase {
	var c optionsCase
	names := rapid.Permutation(optionNames).Draw(t, "order")
	first := rapid.Bool().Draw(t, "firstValue")
	for round := 0; round < 2; round++ {
		for _, n := range names {
			st := uStep{Kind: "setoption", Name: n}
			switch {
			case optionField[n] == "":
			case n == "Hash":
				st.Value = fmt.Sprint(rapid.IntRange(1, 8).Draw(t, "hashMB"))
			default:
				st.Value = fmt.Sprint(first != (round == 1))
			}
			c.Steps = append(c.Steps, st)
		}
	}
	return c
}

func TestC12(t *testing.T) {
	r := hx.NewRec(t, "C12")
	defer r.Finish()
	r.Inflight(true)
	r.Assume("protocol-valid sessions: go / position / setoption / ucinewgame only while no search is running (the GUI waits for bestmove or sends stop first); ponderhit only during a ponder search; ponder searches carry a move time")
	r.Assume("promptness allowances: readyok 5 s, bestmove after stop 2 s (typical latencies are below 10 ms); position is read through the verif accessor after an isready/readyok synchronisation")
	r.Assume("option values inside the announced ranges; Hash <= 8 MB (larger tables are resource use, not protocol behaviour)")

	hx.Sub(r, "setoption-all", r.N(3, 40), genOptionsCase, propC12Options)

	hx.Sub(r, "sessions", r.N(70, 1200), func(t *rapid.T) uciCase { return genUciCase(t, 14) }, propC12)

	// the window named in the property: a new go arriving immediately after a bestmove, here after a timed
	// search that was ended early (its timer goroutine may still be polling), followed by a search that
	// must not answer before stop
	hx.Sub(r, "restart-window", r.N(40, 600), func(t *rapid.T) uciCase {
		c := uciCase{AfterResultUs: rapid.SampledFrom([]int{0, 0, 500, 2000}).Draw(t, "afterResultUs")}
		first := hx.LimSpec{Mode: "movetime", MoveTime: rapid.IntRange(50, 20000).Draw(t, "mt"), StopAfterMs: -1, PonderHitAfterMs: -1}
		if rapid.Bool().Draw(t, "clock") {
			first = hx.LimSpec{Mode: "clock", WTime: 60000, BTime: 60000, StopAfterMs: -1, PonderHitAfterMs: -1}
		}
		if rapid.IntRange(0, 2).Draw(t, "depthLimited") == 0 {
			first.Depth = rapid.IntRange(1, 3).Draw(t, "d") // ends by itself before the time limit
		}
		second := hx.LimSpec{Mode: rapid.SampledFrom([]string{"infinite", "ponder"}).Draw(t, "mode2"), StopAfterMs: -1, PonderHitAfterMs: -1}
		if second.Mode == "ponder" {
			second.MoveTime = 5000
		}
		c.Steps = []uStep{{Kind: "isready"}, {Kind: "go", Limits: first}}
		if first.Depth > 0 {
			c.Steps = append(c.Steps, uStep{Kind: "await"})
		} else {
			c.Steps = append(c.Steps, uStep{Kind: "sleep", SleepMs: rapid.IntRange(0, 30).Draw(t, "run")}, uStep{Kind: "stop"})
		}
		c.Steps = append(c.Steps, uStep{Kind: "go", Limits: second}, uStep{Kind: "sleep", SleepMs: rapid.IntRange(15, 60).Draw(t, "hold")}, uStep{Kind: "isready"}, uStep{Kind: "stop"})
		return c
	}, propC12)

	// pondering on a limit that is reached long before the ponderhit (depth / nodes, with and without a clock):
	// nothing before the ponderhit, exactly one bestmove after it without a stop being needed
	hx.Sub(r, "ponder-limits", r.N(30, 400), func(t *rapid.T) uciCase {
		var c uciCase
		c.Steps = []uStep{{Kind: "isready"}}
		for n := rapid.IntRange(1, 3).Draw(t, "searches"); n > 0; n-- {
			l := hx.LimSpec{Mode: "ponder", StopAfterMs: -1, PonderHitAfterMs: -1}
			switch rapid.IntRange(0, 3).Draw(t, "limit") {
			case 0:
				l.Depth = rapid.IntRange(1, 3).Draw(t, "d")
			case 1:
				l.Nodes = rapid.IntRange(1, 2000).Draw(t, "n")
			case 2:
				l.Depth = rapid.IntRange(1, 3).Draw(t, "d")
				l.MoveTime = rapid.IntRange(20, 200).Draw(t, "mt")
			case 3:
				l.Nodes = rapid.IntRange(1, 2000).Draw(t, "n")
				l.WTime, l.BTime = 2000, 2000
			}
			c.Steps = append(c.Steps, uStep{Kind: "go", Limits: l}, uStep{Kind: "sleep", SleepMs: rapid.IntRange(20, 60).Draw(t, "think")})
			if rapid.IntRange(0, 3).Draw(t, "end") == 0 {
				c.Steps = append(c.Steps, uStep{Kind: "stop"}, uStep{Kind: "await"})
			} else {
				c.Steps = append(c.Steps, uStep{Kind: "ponderhit"}, uStep{Kind: "await"})
			}
		}
		return c
	}, propC12)

	hx.Sub(r, "newgame", r.N(30, 500), func(t *rapid.T) newGameCase {
		c := newGameCase{Depth: rapid.IntRange(2, 5).Draw(t, "depth")}
		p := rc.MustParse(rc.StartFEN)
		if rapid.Bool().Draw(t, "fromFen") {
			p = hx.GenStart(t, 12)
			c.Fen = p.FEN()
		}
		pl := hx.GenPlayoutFrom(t, p, 12, 1)
		c.Moves = pl.Moves
		if ps, _ := pl.Replay(); len(ps[len(ps)-1].Legal()) == 0 {
			c.Moves = nil
		}
		if rapid.IntRange(0, 2).Draw(t, "noHash") == 0 {
			c.Opts = append(c.Opts, uStep{Kind: "setoption", Name: "Use_Hash", Value: "false"})
		}
		// warm-up: searches on related and unrelated positions
		for i := rapid.IntRange(1, 3).Draw(t, "warmups"); i > 0; i-- {
			w := uStep{Kind: "position", Fen: c.Fen}
			if rapid.Bool().Draw(t, "same") {
				k := 0
				if len(c.Moves) > 0 {
					k = rapid.IntRange(0, len(c.Moves)).Draw(t, "prefix")
				}
				w.Moves = c.Moves[:k]
			} else {
				q := hx.GenStart(t, 12)
				w.Fen = q.FEN()
				if len(q.Legal()) == 0 {
					w.Fen = ""
				}
			}
			l := hx.GenLimits(t, 5)
			l.StopAfterMs, l.PonderHitAfterMs = -1, -1
			if l.Mode == "ponder" {
				l.Mode = "infinite"
			}
			c.Warmup = append(c.Warmup, w, uStep{Kind: "go", Limits: l})
		}
		return c
	}, propC12NewGame)
}
