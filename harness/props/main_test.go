package props

import (
	"os"
	"strconv"
	"testing"

	"github.com/frankkopp/FrankyGo/verifharness/hx"
)

func TestMain(m *testing.M) {
	// the engine prints perft / uci log output to os.Stdout: keep ours, drop theirs
	hx.Out = os.Stdout
	if os.Getenv("VERIF_KEEP_STDOUT") == "" {
		if dn, err := os.OpenFile(os.DevNull, os.O_WRONLY, 0); err == nil {
			os.Stdout = dn
		}
	}
	hx.Silence()
	os.Exit(m.Run())
}

// shards returns the number of parallel shard processes of this run.
func shards() int {
	n := 1
	if v := os.Getenv("VERIF_SHARDS"); v != "" {
		if k, err := strconv.Atoi(v); err == nil && k > 0 {
			n = k
		}
	}
	return n
}
