package props

import (
	"fmt"
	"sort"
	"testing"

	"github.com/frankkopp/FrankyGo/verifharness/hx"
	rc "github.com/frankkopp/FrankyGo/verifharness/refchess"
	"pgregory.net/rapid"
)

// ---------------------------------------------------------------------------
// C10 — repetition, fifty-move clock, insufficient material.
// ---------------------------------------------------------------------------

func propC10History(pl hx.Playout, o *hx.Obs) *hx.Failure {
	poss, moves := pl.Replay()
	ep := hx.NewPos(pl.Start)
	seen := map[string]int{} // signature -> number of earlier occurrences
	maxRep := 0
	irreversibleSeen := false
	for i := range poss {
		rp := &poss[i]
		sig := rp.RepSig()
		earlier := seen[sig]
		if earlier > maxRep {
			maxRep = earlier
		}
		o.Evals(1)
		for n := 1; n <= 3; n++ {
			want := earlier >= n
			if got := ep.CheckRepetitions(n); got != want {
				dir := "missed"
				if got {
					dir = "false-positive"
				}
				return hx.Failf("C10/repetition/"+dir, "after %d plies from %s (%s): CheckRepetitions(%d)=%v but the position occurred %d times before (signature %q)", i, pl.Start, hx.JoinMoves(moves[:i]), n, got, earlier, sig)
			}
		}
		if ep.HalfMoveClock() != rp.Half {
			return hx.Failf("C10/halfmove-clock", "after %d plies from %s: HalfMoveClock()=%d, plies since last capture/pawn move (from FEN value)=%d", i, pl.Start, ep.HalfMoveClock(), rp.Half)
		}
		if earlier >= 1 {
			o.NTKey(fmt.Sprintf("%s|%d|%d", pl.Start, i, earlier))
			o.Label(fmt.Sprintf("repetition-count-%d", minInt(earlier, 3)))
		}
		// same placement seen before but with other rights / ep field: must NOT count
		for s2 := range seen {
			if s2 != sig && samePlacementSide(s2, sig) {
				o.Label("same-placement-different-rights-or-ep")
				o.NTKey(fmt.Sprintf("%s|%d|near", pl.Start, i))
				break
			}
		}
		seen[sig]++
		if i < len(moves) {
			if rp.IsCapture(moves[i]) || rc.Upper(rp.B[moves[i].From]) == 'P' {
				irreversibleSeen = true
			}
			ep.DoMove(hx.ToEngine(moves[i]))
		}
	}
	if irreversibleSeen && maxRep >= 1 {
		o.Label("repetition-in-history-with-irreversible-move")
	}
	return nil
}

func minInt(a, b int) int {
	if a < b {
		return a
	}
	return b
}

func samePlacementSide(a, b string) bool {
	// signatures are "placement side castling ep"
	fa, fb := splitSig(a), splitSig(b)
	return fa[0] == fb[0] && fa[1] == fb[1]
}

func splitSig(s string) [4]string {
	var out [4]string
	k := 0
	cur := ""
	for i := 0; i < len(s); i++ {
		if s[i] == ' ' && k < 3 {
			out[k] = cur
			k++
			cur = ""
		} else {
			cur += string(s[i])
		}
	}
	out[k] = cur
	return out
}

// materialCase: kings plus drawn pieces; reached either directly from FEN or by captures.
type materialCase struct {
	Fen   string   `json:"fen"`
	Moves []string `json:"moves,omitempty"`
}

// classifyMaterial is the three-valued oracle of the property: +1 must be reported as
// insufficient, -1 must not, 0 unconstrained.
func classifyMaterial(p *rc.Pos) (int, string) {
	var w, b []byte
	var bishopSquaresW, bishopSquaresB []int
	for sq, pc := range p.B {
		if pc == 0 || rc.Upper(pc) == 'K' {
			continue
		}
		if rc.IsWhite(pc) {
			w = append(w, rc.Upper(pc))
			if pc == 'B' {
				bishopSquaresW = append(bishopSquaresW, sq)
			}
		} else {
			b = append(b, rc.Upper(pc))
			if pc == 'b' {
				bishopSquaresB = append(bishopSquaresB, sq)
			}
		}
	}
	for _, pc := range append(append([]byte{}, w...), b...) {
		if pc == 'P' || pc == 'R' || pc == 'Q' {
			return -1, "pawn-rook-or-queen-on-board"
		}
	}
	sort.Slice(w, func(i, j int) bool { return w[i] < w[j] })
	sort.Slice(b, func(i, j int) bool { return b[i] < b[j] })
	sqCol := func(sq int) int { return (rc.FileOf(sq) + rc.RankOf(sq)) % 2 }
	ws, bs := string(w), string(b)
	switch {
	case ws == "" && bs == "":
		return 1, "bare-kings"
	case (len(ws) == 1 && bs == "") || (ws == "" && len(bs) == 1):
		return 1, "king-and-minor-vs-king"
	case ws == "B" && bs == "B" && sqCol(bishopSquaresW[0]) == sqCol(bishopSquaresB[0]):
		return 1, "same-coloured-single-bishops"
	case (ws == "BN" && bs == "") || (ws == "" && bs == "BN"):
		return -1, "bishop-and-knight-vs-bare-king"
	case ws == "BB" && bs == "" && sqCol(bishopSquaresW[0]) != sqCol(bishopSquaresW[1]):
		return -1, "opposite-coloured-bishop-pair-vs-bare-king"
	case ws == "" && bs == "BB" && sqCol(bishopSquaresB[0]) != sqCol(bishopSquaresB[1]):
		return -1, "opposite-coloured-bishop-pair-vs-bare-king"
	}
	return 0, "unconstrained"
}

func propC10Material(c materialCase, o *hx.Obs) *hx.Failure {
	pl := hx.Playout{Start: c.Fen, Moves: c.Moves}
	poss, moves := pl.Replay()
	ep := hx.NewPos(c.Fen)
	for i := range poss {
		cls, name := classifyMaterial(&poss[i])
		got := ep.HasInsufficientMaterial()
		o.Evals(1)
		o.Label("material:" + name)
		how := "set up from FEN"
		if i > 0 {
			how = "reached by play"
		}
		if cls != 0 {
			o.NTKey(name + "|" + poss[i].Placement())
		}
		if cls == 1 && !got {
			return hx.Failf("C10/insufficient-false/"+name, "%s (%s): HasInsufficientMaterial()=false for a dead position", poss[i].FEN(), how)
		}
		if cls == -1 && got {
			return hx.Failf("C10/insufficient-true/"+name, "%s (%s): HasInsufficientMaterial()=true", poss[i].FEN(), how)
		}
		if i < len(moves) {
			ep.DoMove(hx.ToEngine(moves[i]))
		}
	}
	return nil
}

// genMaterial builds kings + a drawn multiset of 0-4 pieces per side on drawn squares.
func genMaterial(t *rapid.T) rc.Pos {
	for {
		var p rc.Pos
		p.EP = -1
		p.Full = 1
		sqs := rapid.Permutation([]int{0, 1, 2, 3, 4, 5, 6, 7, 8, 9, 10, 11, 12, 13, 14, 15, 16, 17, 18, 19, 20, 21, 22, 23, 24, 25, 26, 27, 28, 29, 30, 31, 32, 33, 34, 35, 36, 37, 38, 39, 40, 41, 42, 43, 44, 45, 46, 47, 48, 49, 50, 51, 52, 53, 54, 55, 56, 57, 58, 59, 60, 61, 62, 63}).Draw(t, "squares")
		p.B[sqs[0]] = 'K'
		k := 1
		for ; k < 64; k++ {
			df, dr := rc.FileOf(sqs[k])-rc.FileOf(sqs[0]), rc.RankOf(sqs[k])-rc.RankOf(sqs[0])
			if df < -1 || df > 1 || dr < -1 || dr > 1 {
				break
			}
		}
		p.B[sqs[k]] = 'k'
		idx := k + 1
		// material classes biased to the ones the property names
		letters := "NBNBNBRQP"
		for side := 0; side < 2; side++ {
			n := rapid.IntRange(0, 4).Draw(t, "n")
			if rapid.IntRange(0, 2).Draw(t, "few") != 0 {
				n = rapid.IntRange(0, 2).Draw(t, "n2")
			}
			for i := 0; i < n && idx < 64; i++ {
				pc := letters[rapid.IntRange(0, len(letters)-1).Draw(t, "pc")]
				sq := sqs[idx]
				idx++
				if pc == 'P' && (rc.RankOf(sq) == 0 || rc.RankOf(sq) == 7) {
					continue
				}
				if side == 1 {
					pc += 32
				}
				p.B[sq] = pc
			}
		}
		p.White = rapid.Bool().Draw(t, "side")
		if p.InCheck(!p.White) {
			p.White = !p.White
		}
		if p.Validate() == nil {
			return p
		}
		// both in check (rare): strip everything but kings
		for sq, pc := range p.B {
			if rc.Upper(pc) != 'K' {
				p.B[sq] = 0
			}
		}
		if p.Validate() == nil {
			return p
		}
	}
}

func TestC10(t *testing.T) {
	r := hx.NewRec(t, "C10")
	defer r.Finish()
	r.Assume("repetition signature = placement, side to move, castling rights, en-passant field (as stated); the game starts at the FEN given")
	r.Assume("insufficient material is checked three-valued: only the classes the property names are constrained")
	if hx.FuzzCrasher(r, "FuzzC10", genFuzzC10, propC10History) {
		return
	}

	hx.Sub(r, "shuffle", r.N(1500, 12000), func(t *rapid.T) hx.Playout {
		var p rc.Pos
		switch rapid.IntRange(0, 3).Draw(t, "src") {
		case 3: // castling rights present: the same placement recurs with fewer rights after a rook / king shuffle
			p = rc.MustParse(rapid.SampledFrom([]string{"r3k2r/8/8/8/8/8/8/R3K2R w KQkq - 0 1", "r3k2r/8/8/8/8/8/8/R3K2R b KQkq - 0 1", "r3k2r/p6p/8/8/8/8/P6P/R3K2R w KQkq - 0 1",
				"4k2r/8/8/8/8/8/8/R3K3 w Qk - 0 1", "rn2k2r/8/8/8/8/8/8/RN2K2R w KQkq - 0 1"}).Draw(t, "castleSeed"))
		case 0:
			p = hx.GenConstructed(t, 4)
		case 1:
			p = hx.GenConstructed(t, 9)
		default:
			p = rc.MustParse(hx.GenSeedFEN(t))
		}
		if p.EP < 0 {
			p.Half = rapid.IntRange(0, 60).Draw(t, "half")
		}
		return hx.GenPlayoutFrom(t, p, r.N(120, 300), 2)
	}, propC10History)

	hx.Sub(r, "material-fen", r.N(20000, 150000), func(t *rapid.T) materialCase {
		p := genMaterial(t)
		return materialCase{Fen: p.FEN()}
	}, propC10Material)

	hx.Sub(r, "material-by-captures", r.N(1500, 10000), func(t *rapid.T) materialCase {
		p := genMaterial(t)
		// capture-biased playout so that material classes are reached incrementally
		pl := hx.Playout{Start: p.FEN()}
		n := rapid.IntRange(1, 40).Draw(t, "plies")
		for i := 0; i < n; i++ {
			legal := p.Legal()
			if len(legal) == 0 {
				break
			}
			rc.SortMoves(legal)
			var caps []rc.Move
			for _, m := range legal {
				if p.IsCapture(m) {
					caps = append(caps, m)
				}
			}
			var m rc.Move
			if len(caps) > 0 && rapid.IntRange(0, 3).Draw(t, "cap") != 0 {
				m = caps[rapid.IntRange(0, len(caps)-1).Draw(t, "ci")]
			} else {
				m = legal[rapid.IntRange(0, len(legal)-1).Draw(t, "mi")]
			}
			pl.Moves = append(pl.Moves, m.UCI(true))
			p = p.Make(m)
		}
		return materialCase{Fen: pl.Start, Moves: pl.Moves}
	}, propC10Material)
}
