package props

import (
	"fmt"
	"strings"
	"testing"

	"github.com/frankkopp/FrankyGo/internal/position"
	"github.com/frankkopp/FrankyGo/internal/types"
	"github.com/frankkopp/FrankyGo/verifharness/hx"
	rc "github.com/frankkopp/FrankyGo/verifharness/refchess"
	"pgregory.net/rapid"
)

// ---------------------------------------------------------------------------
// C02 — DoMove yields the rule-defined successor position.
// ---------------------------------------------------------------------------

var fenFieldNames = []string{"placement", "side", "castling", "ep", "halfmove-clock", "fullmove-number"}

// comparePosition compares the engine position with the reference position through
// the FEN output and the piece / state accessors.
func comparePosition(id string, ep *position.Position, rp *rc.Pos, ctx string) *hx.Failure {
	got, want := ep.StringFen(), rp.FEN()
	if got != want {
		gf, wf := strings.Fields(got), strings.Fields(want)
		field := "shape"
		if len(gf) == 6 {
			for i := range wf {
				if gf[i] != wf[i] {
					field = fenFieldNames[i]
					break
				}
			}
		}
		return hx.Failf(id+"/successor/fen-"+field, "%s: engine FEN %q, rules %q", ctx, got, want)
	}
	for sq := 0; sq < 64; sq++ {
		if hx.PieceLetter(ep.GetPiece(types.Square(sq))) != rp.B[sq] {
			return hx.Failf(id+"/successor/getpiece", "%s: GetPiece(%s)=%q, rules %q", ctx, rc.SqName(sq), hx.PieceLetter(ep.GetPiece(types.Square(sq))), rp.B[sq])
		}
	}
	if ep.CastlingRights().String() != rp.CastleStr() {
		return hx.Failf(id+"/successor/castling-accessor", "%s: CastlingRights()=%s, rules %s", ctx, ep.CastlingRights().String(), rp.CastleStr())
	}
	if ep.GetEnPassantSquare().String() != rc.SqName(rp.EP) {
		return hx.Failf(id+"/successor/ep-accessor", "%s: GetEnPassantSquare()=%s, rules %s", ctx, ep.GetEnPassantSquare().String(), rc.SqName(rp.EP))
	}
	if ep.HalfMoveClock() != rp.Half {
		return hx.Failf(id+"/successor/halfmove-accessor", "%s: HalfMoveClock()=%d, rules %d", ctx, ep.HalfMoveClock(), rp.Half)
	}
	if (ep.NextPlayer() == types.White) != rp.White {
		return hx.Failf(id+"/successor/side-accessor", "%s: NextPlayer()=%s", ctx, ep.NextPlayer().String())
	}
	return nil
}

// moveClass names the rule class a move exercises (non-triviality rule of C02/C03).
func moveClass(p *rc.Pos, m rc.Move) string {
	pc := rc.Upper(p.B[m.From])
	switch {
	case m.Kind == rc.Castling:
		return "castling"
	case m.Kind == rc.EnPassant:
		return "en-passant"
	case m.Kind == rc.Promotion && p.B[m.To] != 0:
		if m.To == 0 || m.To == 7 || m.To == 56 || m.To == 63 {
			return "promotion-capture-on-rook-square"
		}
		return "promotion-capture"
	case m.Kind == rc.Promotion:
		return "promotion"
	case p.B[m.To] != 0 && (m.To == 0 || m.To == 7 || m.To == 56 || m.To == 63) && rc.Upper(p.B[m.To]) == 'R':
		return "capture-on-rook-home-square"
	case (pc == 'K' || pc == 'R') && p.Castle != [4]bool{}:
		return "king-or-rook-move-with-rights"
	case pc == 'P' && (m.To-m.From == 16 || m.From-m.To == 16):
		return "double-push"
	case p.B[m.To] != 0:
		return "capture"
	}
	return ""
}

func propC02(pl hx.Playout, o *hx.Obs) *hx.Failure {
	poss, moves := pl.Replay()
	if f := func() *hx.Failure {
		ep, err := position.NewPositionFen(pl.Start)
		if err != nil || ep == nil {
			return hx.Failf("C02/setup/fen-rejected", "engine rejects legal FEN %q: %v", pl.Start, err)
		}
		if f := comparePosition("C02", ep, &poss[0], "after FEN set-up"); f != nil {
			f.Sig = strings.Replace(f.Sig, "/successor/", "/setup/", 1)
			return f
		}
		blackStart := !poss[0].White
		for i, m := range moves {
			ep.DoMove(hx.ToEngine(m))
			cl := moveClass(&poss[i], m)
			if cl != "" {
				o.Label(cl)
			}
			if blackStart {
				o.Label("black-to-move-start")
			}
			if cl != "" && cl != "capture" || blackStart && i < 2 {
				o.NTKey(poss[i].FEN() + " " + m.UCI(true))
			}
			o.Evals(1)
			ctx := fmt.Sprintf("ply %d: %s + %s", i+1, poss[i].FEN(), m.UCI(true))
			if f := comparePosition("C02", ep, &poss[i+1], ctx); f != nil {
				if cl != "" {
					f.Msg += " [move class " + cl + "]"
				}
				return f
			}
		}
		o.Label(fmt.Sprintf("plies>=%d", len(moves)/64*64))
		return nil
	}(); f != nil {
		return f
	}
	return nil
}

// genClockedPlayout draws a playout whose start FEN has drawn clocks.
func genClockedPlayout(t *rapid.T, maxPlies int, bias int) hx.Playout {
	p := hx.GenStart(t, 14)
	if rapid.Bool().Draw(t, "reclock") {
		if p.EP < 0 {
			p.Half = rapid.IntRange(0, 99).Draw(t, "half")
		}
		p.Full = rapid.IntRange(1, 300).Draw(t, "full")
	}
	return hx.GenPlayoutFrom(t, p, maxPlies, bias)
}

func TestC02(t *testing.T) {
	r := hx.NewRec(t, "C02")
	defer r.Finish()
	r.Assume("refchess.Make is the rule-defined successor (ep target recorded after every double push, as the engine's FEN documents)")
	r.Assume("at most 512 plies per history (documented capacity); moves are legal (drawn from the reference legal list)")

	hx.Sub(r, "playout", r.N(2500, 6000), func(t *rapid.T) hx.Playout {
		return genClockedPlayout(t, r.N(80, 200), 1)
	}, propC02)

	// long histories up to the 512-ply capacity
	hx.Sub(r, "long", r.N(30, 250), func(t *rapid.T) hx.Playout {
		p := rc.MustParse(rc.StartFEN)
		if rapid.Bool().Draw(t, "other") {
			p = hx.GenStart(t, 14)
		}
		pl := hx.GenPlayoutFrom(t, p, 0, 0)
		// play until 512 plies or game end, reversible bias keeps games alive
		pos := p
		for len(pl.Moves) < 512 {
			legal := pos.Legal()
			if len(legal) == 0 {
				break
			}
			rc.SortMoves(legal)
			m := hx.PickMove(t, &pos, legal, 2)
			pl.Moves = append(pl.Moves, m.UCI(true))
			pos = pos.Make(m)
		}
		return pl
	}, propC02)

	// every legal move of constructed positions (one ply, all moves)
	hx.Sub(r, "allmoves", r.N(6000, 30000), func(t *rapid.T) hx.Playout {
		p := hx.GenPosition(t)
		return hx.Playout{Start: p.FEN(), Moves: []string{"*"}}
	}, func(pl hx.Playout, o *hx.Obs) *hx.Failure {
		p := rc.MustParse(pl.Start)
		for _, m := range p.Legal() {
			if f := propC02(hx.Playout{Start: pl.Start, Moves: []string{m.UCI(true)}}, o); f != nil {
				return f
			}
		}
		return nil
	})
}
