package props

import (
	"fmt"
	"testing"

	"github.com/frankkopp/FrankyGo/internal/config"
	"github.com/frankkopp/FrankyGo/internal/history"
	"github.com/frankkopp/FrankyGo/internal/movegen"
	"github.com/frankkopp/FrankyGo/internal/position"
	"github.com/frankkopp/FrankyGo/internal/types"
	"github.com/frankkopp/FrankyGo/verifharness/hx"
	rc "github.com/frankkopp/FrankyGo/verifharness/refchess"
	"pgregory.net/rapid"
)

// ---------------------------------------------------------------------------
// C08 — all move-generation modes describe the same move set.
// Stateful: one reused Movegen is driven through a generated history of visits.
// ---------------------------------------------------------------------------

type histEntry struct {
	Color int   `json:"c"`
	From  int   `json:"f"`
	To    int   `json:"t"`
	Count int64 `json:"n"`
}

type counterEntry struct {
	LastFrom, LastTo int
	Move             rc.Move
}

type visit struct {
	Fen      string    `json:"fen"`
	LastMove *rc.Move  `json:"reached_by,omitempty"` // the position is reached by playing this move from Fen (so LastMove() is set)
	Pv       *rc.Move  `json:"pv,omitempty"`
	Killers  []rc.Move `json:"killers,omitempty"`
	Reset    bool      `json:"reset"`
	Mode     int       `json:"mode"`  // 1 non-quiet, 2 quiet, 3 all
	Batch    bool      `json:"batch"` // batch generator instead of the phased one
	Take     int       `json:"take"`  // number of moves to take from the phased generator, -1 = until MoveNone
}

type c08Case struct {
	PromNonQuiet bool           `json:"use_prom_non_quiet"`
	UseHistory   bool           `json:"use_history"`
	Hist         []histEntry    `json:"history,omitempty"`
	Counters     []counterEntry `json:"counter_moves,omitempty"`
	Visits       []visit        `json:"visits"`
}

var modeName = map[int]string{1: "non-quiet", 2: "quiet", 3: "all"}

func multiset(ms []rc.Move) map[rc.Move]int {
	m := map[rc.Move]int{}
	for _, x := range ms {
		m[x]++
	}
	return m
}

func propC08(c c08Case, o *hx.Obs) *hx.Failure {
	save := config.Settings.Search.UsePromNonQuiet
	defer func() { config.Settings.Search.UsePromNonQuiet = save }()
	config.Settings.Search.UsePromNonQuiet = c.PromNonQuiet

	mg := movegen.NewMoveGen()
	if c.UseHistory {
		h := history.NewHistory()
		for _, e := range c.Hist {
			h.HistoryCount[e.Color&1][e.From&63][e.To&63] = e.Count
		}
		for _, e := range c.Counters {
			h.CounterMoves[e.LastFrom&63][e.LastTo&63] = hx.ToEngine(e.Move)
		}
		mg.SetHistoryData(h)
	}
	prevSig := ""
	pvSet := false
	for vi, v := range c.Visits {
		rp := rc.MustParse(v.Fen)
		ep := hx.NewPos(v.Fen)
		if v.LastMove != nil {
			ep.DoMove(hx.ToEngine(*v.LastMove))
			rp = rp.Make(*v.LastMove)
		}
		fen := rp.FEN()
		inCheck := rp.InCheck(rp.White)
		mode := movegen.GenMode(v.Mode)
		ctx := fmt.Sprintf("visit %d: %s mode=%s evasion=%v pv=%v killers=%v reset=%v batch=%v promNonQuiet=%v", vi, fen, modeName[v.Mode], inCheck, v.Pv, v.Killers, v.Reset, v.Batch, c.PromNonQuiet)

		// discipline of the real callers: a reused generator is reset before a position is
		// visited again, and whenever a PV move is (or was) set
		// (prevSig = the position of the last *phased* iteration: the documented rule is "to reuse
		// this on the same position a call to ResetOnDemand() is necessary")
		reset := v.Reset || rp.FEN4() == prevSig || v.Pv != nil || pvSet
		if reset {
			mg.ResetOnDemand()
			pvSet = false
		}
		for _, k := range v.Killers {
			mg.StoreKiller(hx.ToEngine(k))
		}
		if v.Pv != nil {
			mg.SetPvMove(hx.ToEngine(*v.Pv))
			pvSet = true
		}
		if !v.Batch && v.Take != 0 { // (with take == 0 the generator is never called for this position)
			prevSig = rp.FEN4()
		}

		// oracle sets
		fresh := movegen.NewMoveGen()
		wantMode := hx.MovesOf(fresh.GeneratePseudoLegalMoves(ep, mode, false))
		legal := rp.Legal()
		legalSet := multiset(legal)
		refPseudo := multiset(rp.PseudoLegal())
		o.Evals(1)

		// the quick "has a legal move" test
		if got := mg.HasLegalMove(ep); got != (len(legal) > 0) {
			return hx.Failf("C08/has-legal-move", "%s: HasLegalMove()=%v but the legal move list has %d moves (%s)", fen, got, len(legal), hx.JoinMoves(legal))
		}

		// reference cross-check of the batch set in mode all, and the partition
		if v.Mode == 3 {
			all := hx.MovesOf(fresh.GeneratePseudoLegalMoves(ep, movegen.GenAll, false))
			if miss, extra, dup := hx.MoveSetDiff(all, rp.PseudoLegal()); len(miss)+len(extra)+len(dup) > 0 {
				return hx.Failf("C08/batch-vs-rules", "%s: batch pseudo-legal list vs rules: missing %s extra %s dup %s", fen, hx.JoinMoves(miss), hx.JoinMoves(extra), hx.JoinMoves(dup))
			}
			nq := hx.MovesOf(fresh.GeneratePseudoLegalMoves(ep, movegen.GenNonQuiet, false))
			q := hx.MovesOf(fresh.GeneratePseudoLegalMoves(ep, movegen.GenQuiet, false))
			if miss, extra, dup := hx.MoveSetDiff(append(nq, q...), all); len(miss)+len(extra)+len(dup) > 0 {
				return hx.Failf("C08/partition", "%s: non-quiet + quiet is not a partition of all: missing %s extra %s twice %s", fen, hx.JoinMoves(miss), hx.JoinMoves(extra), hx.JoinMoves(dup))
			}
		}

		// run the generator under test
		var got []rc.Move
		complete := true
		if v.Batch {
			got = hx.MovesOf(mg.GeneratePseudoLegalMoves(ep, mode, inCheck))
		} else {
			for n := 0; v.Take < 0 || n < v.Take; n++ {
				m := mg.GetNextMove(ep, mode, inCheck)
				if m == types.MoveNone {
					break
				}
				got = append(got, hx.FromEngine(m))
				if len(got) > 400 {
					return hx.Failf("C08/phased/endless", "%s: more than 400 moves delivered", ctx)
				}
			}
			if v.Take >= 0 && len(got) == v.Take {
				complete = false // partial iteration (abandoned like after a beta cut)
			}
		}
		gen := "phased"
		if v.Batch {
			gen = "batch"
		}
		gotSet := multiset(got)
		for m, n := range gotSet {
			if n > 1 {
				return hx.Failf("C08/"+gen+"/duplicate", "%s: %s delivered %d times", ctx, m.UCI(true), n)
			}
			if refPseudo[m] == 0 {
				return hx.Failf("C08/"+gen+"/not-pseudo-legal", "%s: delivered %s which is not a pseudo-legal move", ctx, m.UCI(true))
			}
		}
		nt := inCheck || v.Pv != nil || len(v.Killers) > 0
		if complete {
			if !inCheck {
				if miss, extra, _ := hx.MoveSetDiff(got, wantMode); len(miss)+len(extra) > 0 {
					return hx.Failf("C08/"+gen+"/set-differs-mode-"+modeName[v.Mode], "%s: vs batch list of a fresh generator: missing %s extra %s", ctx, hx.JoinMoves(miss), hx.JoinMoves(extra))
				}
			} else {
				// evasion: may omit only illegal moves -> legality-filtered it equals the legal list (of that mode)
				wantLegal := []rc.Move{}
				for _, m := range wantMode {
					if legalSet[m] > 0 {
						wantLegal = append(wantLegal, m)
					}
				}
				gotLegal := []rc.Move{}
				for _, m := range got {
					if legalSet[m] > 0 {
						gotLegal = append(gotLegal, m)
					}
				}
				if miss, extra, _ := hx.MoveSetDiff(gotLegal, wantLegal); len(miss)+len(extra) > 0 {
					return hx.Failf("C08/"+gen+"-evasion/legal-move-omitted-mode-"+modeName[v.Mode], "%s: legal evasions missing %s (extra %s); delivered %s", ctx, hx.JoinMoves(miss), hx.JoinMoves(extra), hx.JoinMoves(got))
				}
				if v.Mode == 3 {
					if miss, extra, _ := hx.MoveSetDiff(gotLegal, legal); len(miss)+len(extra) > 0 {
						return hx.Failf("C08/"+gen+"-evasion/vs-rules", "%s: legality-filtered evasions vs rules: missing %s extra %s", ctx, hx.JoinMoves(miss), hx.JoinMoves(extra))
					}
				}
			}
		}
		// PV first: stated for the phased generator only (the batch generator orders by sort value,
		// where a large history counter may legitimately outrank the PV bonus)
		if v.Pv != nil && len(got) > 0 && !v.Batch {
			inWant := false
			for _, m := range wantMode {
				if m == *v.Pv {
					inWant = true
				}
			}
			delivered := gotSet[*v.Pv] > 0
			if (delivered || (inWant && !inCheck && complete)) && got[0] != *v.Pv {
				stage := "quiet"
				if rp.IsCapture(*v.Pv) {
					stage = "capture"
				}
				return hx.Failf("C08/"+gen+"/pv-not-first-mode-"+modeName[v.Mode]+"-"+stage, "%s: PV move %s belongs to the set but the first move delivered is %s (sequence %s)", ctx, v.Pv.UCI(true), got[0].UCI(true), hx.JoinMoves(got))
			}
			if inWant {
				o.Label("pv-in-set:" + modeName[v.Mode])
			}
		}
		if nt {
			o.NTKey(ctx)
		}
		for _, l := range hx.Classify(&rp) {
			o.Label(l)
		}
		if !complete {
			o.Label("partial-iteration")
		}
		if !reset {
			o.Label("position-switch-without-reset")
		}
	}
	return nil
}

// pvCandidates picks a PV move of the position's pseudo-legal set from a drawn stage class.
func genPv(t *rapid.T, p *rc.Pos) *rc.Move {
	ps := p.PseudoLegal()
	if len(ps) == 0 {
		return nil
	}
	rc.SortMoves(ps)
	class := rapid.IntRange(0, 7).Draw(t, "pvClass")
	var sub []rc.Move
	for _, m := range ps {
		pc := rc.Upper(p.B[m.From])
		capt := p.IsCapture(m)
		ok := false
		switch class {
		case 0:
			ok = true
		case 1:
			ok = pc == 'P' && capt
		case 2:
			ok = pc != 'P' && pc != 'K' && capt
		case 3:
			ok = pc == 'K' && capt
		case 4:
			ok = m.Kind == rc.Promotion && !capt
		case 5:
			ok = m.Kind == rc.Castling
		case 6:
			ok = pc == 'K' && !capt && m.Kind == rc.Normal
		case 7:
			ok = pc != 'P' && pc != 'K' && !capt
		}
		if ok {
			sub = append(sub, m)
		}
	}
	if len(sub) == 0 {
		sub = ps
	}
	m := sub[rapid.IntRange(0, len(sub)-1).Draw(t, "pvIdx")]
	return &m
}

func genC08(t *rapid.T, maxVisits int) c08Case {
	c := c08Case{PromNonQuiet: rapid.Bool().Draw(t, "promNonQuiet"), UseHistory: rapid.Bool().Draw(t, "useHist")}
	if c.UseHistory {
		for i := rapid.IntRange(0, 12).Draw(t, "nh"); i > 0; i-- {
			cnt := rapid.Int64Range(0, 5_000_000).Draw(t, "cnt")
			if rapid.IntRange(0, 5).Draw(t, "huge") == 0 {
				cnt = rapid.Int64Range(0, 1<<62).Draw(t, "hugeCnt")
			}
			c.Hist = append(c.Hist, histEntry{rapid.IntRange(0, 1).Draw(t, "hc"), rapid.IntRange(0, 63).Draw(t, "hf"), rapid.IntRange(0, 63).Draw(t, "ht"), cnt})
		}
	}
	n := rapid.IntRange(1, maxVisits).Draw(t, "visits")
	var pool []rc.Pos
	for i := 0; i < n; i++ {
		var p rc.Pos
		if len(pool) > 0 && rapid.IntRange(0, 3).Draw(t, "revisit") == 0 {
			p = pool[rapid.IntRange(0, len(pool)-1).Draw(t, "which")]
		} else {
			p = hx.GenPosition(t)
			if !p.InCheck(p.White) && rapid.IntRange(0, 2).Draw(t, "wantCheck") == 0 {
				// play a checking move if there is one, so that >= 30% of the visits are evasions
				for _, m := range p.Legal() {
					n := p.Make(m)
					if n.InCheck(n.White) && len(n.Legal()) > 0 {
						p = n
						break
					}
				}
			}
			pool = append(pool, p)
		}
		v := visit{Fen: p.FEN(), Reset: rapid.Bool().Draw(t, "reset"), Mode: rapid.SampledFrom([]int{3, 3, 3, 1, 2}).Draw(t, "mode"), Batch: rapid.IntRange(0, 3).Draw(t, "batch") == 0, Take: -1}
		// reach the position by a move so that LastMove() (counter-move heuristic) is set
		if rapid.Bool().Draw(t, "viaMove") {
			if legal := p.Legal(); len(legal) > 0 {
				rc.SortMoves(legal)
				m := legal[rapid.IntRange(0, len(legal)-1).Draw(t, "via")]
				v.LastMove = &m
				p = p.Make(m)
			}
		}
		if rapid.IntRange(0, 4).Draw(t, "partial") == 0 {
			v.Take = rapid.IntRange(0, 12).Draw(t, "take")
		}
		if rapid.IntRange(0, 2).Draw(t, "hasPv") != 0 {
			v.Pv = genPv(t, &p)
		}
		ps := p.PseudoLegal()
		rc.SortMoves(ps)
		for k := rapid.IntRange(0, 2).Draw(t, "nk"); k > 0; k-- {
			if len(ps) > 0 && rapid.IntRange(0, 3).Draw(t, "memberKiller") != 0 {
				v.Killers = append(v.Killers, ps[rapid.IntRange(0, len(ps)-1).Draw(t, "ki")])
			} else {
				v.Killers = append(v.Killers, rc.Move{From: rapid.IntRange(0, 63).Draw(t, "kf"), To: rapid.IntRange(0, 63).Draw(t, "kt")})
			}
		}
		if c.UseHistory && len(ps) > 0 && v.LastMove != nil && rapid.Bool().Draw(t, "counter") {
			c.Counters = append(c.Counters, counterEntry{v.LastMove.From, v.LastMove.To, ps[rapid.IntRange(0, len(ps)-1).Draw(t, "cm")]})
		}
		// history counters of moves that really occur in the visited position (a random (from,to) pair practically
		// never is one): magnitudes around every threshold of the sort-value arithmetic (count/100 added to the
		// move's sort value, which competes with the killer values and with the PV move's maximum)
		if c.UseHistory && len(ps) > 0 {
			side := 0
			if !p.White {
				side = 1
			}
			for k := rapid.IntRange(0, 3).Draw(t, "moveHist"); k > 0; k-- {
				m := ps[rapid.IntRange(0, len(ps)-1).Draw(t, "hm")]
				if v.Pv != nil && rapid.Bool().Draw(t, "pvMate") {
					// a move of the same stage as the PV move: same moving piece kind and same capture class
					var mates []rc.Move
					for _, q := range ps {
						if (q.From != v.Pv.From || q.To != v.Pv.To) && p.B[q.From] == p.B[v.Pv.From] && (p.B[q.To] != 0) == (p.B[v.Pv.To] != 0) {
							mates = append(mates, q)
						}
					}
					if len(mates) > 0 {
						m = mates[rapid.IntRange(0, len(mates)-1).Draw(t, "mate")]
					}
				}
				cnt := rapid.SampledFrom([]int64{99, 100, 40_000, 400_000, 1_000_000, 1_500_000, 2_000_000, 2_500_000, 3_000_000, 3_270_000, 3_500_000, 4_000_000, 4_200_000, 6_553_600, 1 << 40}).Draw(t, "magnitude")
				cnt += rapid.Int64Range(0, 99_999).Draw(t, "jitter")
				c.Hist = append(c.Hist, histEntry{side, m.From, m.To, cnt})
			}
		}
		c.Visits = append(c.Visits, v)
	}
	return c
}

var _ = position.StartFen

func TestC08(t *testing.T) {
	r := hx.NewRec(t, "C08")
	defer r.Finish()
	r.Assume("PV move is a pseudo-legal move of the target position (it comes from the hash table / IID for that position); evasion flag = side to move is in check, as every caller passes it")
	r.Assume("a reused generator is reset before the same position is visited again and whenever a PV move is or was set (discipline of search); position switches without reset only without PV (perft)")
	r.Assume("batch calls are made between, not inside, phased iterations")
	if hx.FuzzCrasher(r, "FuzzC08", genFuzzC08, propC08) {
		return
	}

	hx.Sub(r, "machine", r.N(8000, 40000), func(t *rapid.T) c08Case { return genC08(t, 8) }, propC08)

	// seed positions named in the property: only legal moves are promotions / ep, stalemates
	hx.Enum(r, "seeds", false, func(yield func(c08Case) bool) {
		for _, f := range hx.SeedFENs {
			for _, pnq := range []bool{true, false} {
				for mode := 1; mode <= 3; mode++ {
					if !yield(c08Case{PromNonQuiet: pnq, Visits: []visit{{Fen: f, Reset: true, Mode: mode, Take: -1}, {Fen: f, Reset: true, Mode: mode, Batch: true, Take: -1}}}) {
						return
					}
				}
			}
		}
	}, propC08)
}
