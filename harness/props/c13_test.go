package props

import (
	"fmt"
	"os"
	"path/filepath"
	"strings"
	"testing"
	"time"

	"github.com/frankkopp/FrankyGo/internal/config"
	"github.com/frankkopp/FrankyGo/internal/search"
	"github.com/frankkopp/FrankyGo/internal/types"
	"github.com/frankkopp/FrankyGo/verifharness/hx"
	rc "github.com/frankkopp/FrankyGo/verifharness/refchess"
	"pgregory.net/rapid"
)

// ---------------------------------------------------------------------------
// C13 — search limits honoured: move time, clock budget, depth, nodes, searchmoves.
// ---------------------------------------------------------------------------

// ---- (a) time budget function (verif hook VerifSetupTimeControl) ------------

type budgetCase struct {
	Fen       string `json:"fen"`
	RemainMs  int64  `json:"remaining_ms"`
	IncMs     int64  `json:"increment_ms"`
	OtherMs   int64  `json:"other_side_remaining_ms"`
	OtherInc  int64  `json:"other_side_increment_ms"`
	MovesToGo int    `json:"movestogo"`
}

// phaseFens: positions over the whole range of game phases, both colours to move.
var phaseFens = []string{
	rc.StartFEN, "rnbqkbnr/pppppppp/8/8/4P3/8/PPPP1PPP/RNBQKBNR b KQkq e3 0 1",
	"r4rk1/1pp1qppp/p1np1n2/2b1p1B1/2B1P1b1/P1NP1N2/1PP1QPPP/R4RK1 w - - 0 10", "r4rk1/1pp1qppp/p1np1n2/2b1p1B1/2B1P1b1/P1NP1N2/1PP1QPPP/R4RK1 b - - 0 10",
	"2r3k1/pppR1pp1/4p3/4P1P1/5P2/1P4K1/P1P5/8 w - - 0 1", "2r3k1/pppR1pp1/4p3/4P1P1/5P2/1P4K1/P1P5/8 b - - 0 1",
	"8/8/8/4k3/8/8/8/KR6 w - - 0 1", "8/8/8/4k3/8/8/8/KR6 b - - 0 1", "8/8/4k3/8/8/3P4/8/K7 w - - 0 1", "8/8/4k3/8/8/3P4/8/K7 b - - 0 1",
	"r1bq1rk1/pp3ppp/2n2n2/3p4/3P4/2N2N2/PP3PPP/R1BQ1RK1 w - - 0 1", "4rrk1/5ppp/8/8/8/8/5PPP/3QR1K1 b - - 0 1",
}

func propC13Budget(c budgetCase, o *hx.Obs) *hx.Failure {
	rp := rc.MustParse(c.Fen)
	ep := hx.NewPos(c.Fen)
	sl := search.NewSearchLimits()
	sl.TimeControl = true
	ms := func(n int64) time.Duration { return time.Duration(n) * time.Millisecond }
	if rp.White {
		sl.WhiteTime, sl.WhiteInc, sl.BlackTime, sl.BlackInc = ms(c.RemainMs), ms(c.IncMs), ms(c.OtherMs), ms(c.OtherInc)
	} else {
		sl.BlackTime, sl.BlackInc, sl.WhiteTime, sl.WhiteInc = ms(c.RemainMs), ms(c.IncMs), ms(c.OtherMs), ms(c.OtherInc)
	}
	sl.MovesToGo = c.MovesToGo
	s := search.NewSearch()
	limit := s.VerifSetupTimeControl(ep, sl)
	remain, inc := ms(c.RemainMs), ms(c.IncMs)
	ctx := fmt.Sprintf("%s remaining %v inc %v movestogo %d (game phase %d): budget %v", c.Fen, remain, inc, c.MovesToGo, ep.GamePhase(), limit)
	if limit < 0 {
		return hx.Failf("C13/budget/negative", "%s", ctx)
	}
	if limit > remain {
		return hx.Failf("C13/budget/exceeds-remaining-clock", "%s exceeds the mover's remaining time", ctx)
	}
	m := int64(c.MovesToGo)
	if m == 0 {
		m = 15
	}
	if int64(limit)*m > int64(remain)+m*int64(inc) {
		return hx.Failf("C13/budget/does-not-fit-moves-to-go", "%s: %d moves of that length need %v, available %v", ctx, m, time.Duration(int64(limit)*m), time.Duration(int64(remain)+m*int64(inc)))
	}
	if c.IncMs > c.RemainMs || c.MovesToGo == 1 || c.RemainMs < 100 {
		o.NT("")
	}
	switch {
	case c.IncMs > c.RemainMs:
		o.Label("increment>remaining")
	case c.MovesToGo == 1:
		o.Label("movestogo=1")
	case c.RemainMs < 100:
		o.Label("remaining<100ms")
	}
	return nil
}

// ---- (b)-(e) limits on real searches ----------------------------------------

type limitCase struct {
	Fen      string         `json:"fen"`
	Kind     string         `json:"kind"` // movetime depth nodes searchmoves searchmoves-uci
	Value    int            `json:"value"`
	Moves    []string       `json:"searchmoves,omitempty"`
	Settings hx.SettingsVec `json:"settings,omitempty"`
}

const nodeOvershootAllowed = 1000 // "small overshoot": quiescence sub-trees are only checked on return

func propC13Limit(c limitCase, o *hx.Obs) *hx.Failure {
	save := config.Settings
	defer func() { config.Settings = save }()
	c.Settings.Apply()
	rp := rc.MustParse(c.Fen)
	legal := rp.Legal()
	if len(legal) == 0 {
		return nil
	}
	ep := hx.NewPos(c.Fen)
	ctx := fmt.Sprintf("%s %s=%d %v", c.Fen, c.Kind, c.Value, c.Moves)
	newSearch := func() (*search.Search, *hx.Driver) {
		s := search.NewSearch()
		d := &hx.Driver{}
		s.SetUciHandler(d)
		return s, d
	}
	if len(legal) >= 2 {
		o.NT("")
	}
	o.Label("limit:" + c.Kind)
	switch c.Kind {
	case "movetime":
		allowance := 250 * time.Millisecond
		run := func() (time.Duration, bool) {
			s, d := newSearch()
			out := hx.RunSearch(s, d, ep, &rp, hx.LimSpec{Mode: "movetime", MoveTime: c.Value, StopAfterMs: -1, PonderHitAfterMs: -1}, 30*time.Second)
			if out.Hung || len(out.Sent) == 0 {
				return 0, false
			}
			return out.Duration, true
		}
		dur, ok := run()
		if !ok {
			return hx.Failf("C13/movetime/no-result", "%s: no best move within 30 s", ctx)
		}
		if dur > time.Duration(c.Value)*time.Millisecond+allowance {
			// confirmation run before a timing result is reported
			time.Sleep(300 * time.Millisecond)
			dur2, ok2 := run()
			if !ok2 || dur2 > time.Duration(c.Value)*time.Millisecond+allowance {
				return hx.Failf("C13/movetime/late", "%s: best move after %v and %v (allowed %d ms + %v)", ctx, dur, dur2, c.Value, allowance)
			}
			o.Label("movetime-late-once-not-confirmed")
		}
	case "depth":
		s, d := newSearch()
		out := hx.RunSearch(s, d, ep, &rp, hx.LimSpec{Mode: "depth", Depth: c.Value, StopAfterMs: -1, PonderHitAfterMs: -1}, 120*time.Second)
		if out.Slow {
			o.Label("slow-search-stopped-by-harness(inconclusive)")
			return nil
		}
		if out.Hung {
			return hx.Failf("C13/depth/hang", "%s: search did not end", ctx)
		}
		want := c.Value
		if len(legal) == 1 {
			want = 1
		}
		if out.Result.SearchDepth != want {
			return hx.Failf("C13/depth/iterations", "%s: %d iterations completed, want %d (legal root moves %d)", ctx, out.Result.SearchDepth, want, len(legal))
		}
		// every iteration up to the limit reported in order
		last := 0
		for _, it := range out.Iters {
			if it.Depth != last+1 {
				return hx.Failf("C13/depth/iteration-order", "%s: iteration reports %v", ctx, out.Iters)
			}
			last = it.Depth
		}
	case "nodes":
		s, d := newSearch()
		out := hx.RunSearch(s, d, ep, &rp, hx.LimSpec{Mode: "nodes", Nodes: c.Value, StopAfterMs: -1, PonderHitAfterMs: -1}, 120*time.Second)
		if out.Slow {
			o.Label("slow-search-stopped-by-harness(inconclusive)")
			return nil
		}
		if out.Hung {
			return hx.Failf("C13/nodes/hang", "%s: search did not end", ctx)
		}
		if len(legal) > 1 && out.Nodes > uint64(c.Value)+nodeOvershootAllowed {
			return hx.Failf("C13/nodes/overshoot", "%s: %d nodes visited (limit %d, allowed overshoot %d)", ctx, out.Nodes, c.Value, nodeOvershootAllowed)
		}
		o.Label(fmt.Sprintf("nodes-overshoot<=%d", (int(out.Nodes)-c.Value+99)/100*100))
	case "searchmoves":
		s, d := newSearch()
		out := hx.RunSearch(s, d, ep, &rp, hx.LimSpec{Mode: "depth", Depth: c.Value, Moves: c.Moves, StopAfterMs: -1, PonderHitAfterMs: -1}, 120*time.Second)
		if out.Slow {
			o.Label("slow-search-stopped-by-harness(inconclusive)")
			return nil
		}
		if out.Hung {
			return hx.Failf("C13/searchmoves/hang", "%s: search did not end", ctx)
		}
		if f := bestInList(out.Result.BestMove, c.Moves, ctx, "api"); f != nil {
			return f
		}
		if len(legal) > 1 && out.Result.SearchDepth != c.Value {
			return hx.Failf("C13/depth/iterations-with-searchmoves", "%s: %d iterations completed, want %d (legal root moves %d, searchmoves %v)", ctx, out.Result.SearchDepth, c.Value, len(legal), c.Moves)
		}
	case "searchmoves-uci":
		u := hx.StartUci()
		defer u.Quit(20 * time.Second)
		u.Send("position fen " + c.Fen)
		u.Send(fmt.Sprintf("go depth %d searchmoves %s", c.Value, strings.Join(c.Moves, " ")))
		if !u.WaitCount("bestmove", 1, 60*time.Second) {
			if p, st := u.LoopPanicked(); p != nil {
				return hx.Failf("C13/searchmoves/panic", "%s: %v\n%s", ctx, p, st)
			}
			return hx.Failf("C13/searchmoves/uci-no-bestmove", "%s: 'go depth %d searchmoves %s' produced no bestmove within 60 s (output: %s)", ctx, c.Value, strings.Join(c.Moves, " "), tailLines(u.Lines(), 3))
		}
		var bm string
		for _, l := range u.Lines() {
			if strings.HasPrefix(l.Text, "bestmove ") {
				bm = strings.Fields(l.Text)[1]
			}
		}
		found := false
		for _, m := range c.Moves {
			if strings.EqualFold(m, bm) {
				found = true
			}
		}
		if !found {
			return hx.Failf("C13/searchmoves/best-not-in-list-uci", "%s: bestmove %s is not one of the searchmoves", ctx, bm)
		}
	}
	return nil
}

// ---- limits over a history of searches on one engine instance ------------------------------------
// The engine keeps state between searches (hash table, root move list, history counters, timers): every
// search of a sequence has to honour its own limits, whatever the earlier searches were given.

type limitStep struct {
	Kind  string   `json:"kind"` // depth nodes searchmoves plain
	Value int      `json:"value"`
	Moves []string `json:"searchmoves,omitempty"`
	Play  string   `json:"play_before,omitempty"` // a move made on the board before this search ("" = same position again)
}

type limitSeqCase struct {
	Fen      string         `json:"fen"`
	Steps    []limitStep    `json:"steps"`
	Settings hx.SettingsVec `json:"settings,omitempty"`
	NewGame  []bool         `json:"newgame_before,omitempty"`
}

func propC13Seq(c limitSeqCase, o *hx.Obs) *hx.Failure {
	save := config.Settings
	defer func() { config.Settings = save }()
	c.Settings.Apply()
	rp := rc.MustParse(c.Fen)
	ep := hx.NewPos(c.Fen)
	s := search.NewSearch()
	d := &hx.Driver{}
	s.SetUciHandler(d)
	defer s.StopSearch()
	samePosRestricted := 0
	var prevList []string
	for i, st := range c.Steps {
		if st.Play != "" {
			m, ok := rp.FindUCI(st.Play)
			if !ok {
				break
			}
			rp = rp.Make(m)
			ep.DoMove(hx.ToEngine(m))
			prevList = nil
		}
		if i < len(c.NewGame) && c.NewGame[i] {
			s.NewGame()
		}
		legal := rp.Legal()
		if len(legal) == 0 {
			break
		}
		ctx := fmt.Sprintf("search %d of the sequence %+v from %s, on %s", i+1, c.Steps, c.Fen, rp.FEN())
		l := hx.LimSpec{Mode: "depth", Depth: st.Value, StopAfterMs: -1, PonderHitAfterMs: -1}
		if st.Kind == "nodes" {
			l = hx.LimSpec{Mode: "nodes", Nodes: st.Value, StopAfterMs: -1, PonderHitAfterMs: -1}
		}
		l.Moves = st.Moves
		out := hx.RunSearch(s, d, ep, &rp, l, 120*time.Second)
		o.Evals(1)
		if out.Slow {
			o.Label("slow-search-stopped-by-harness(inconclusive)")
			return nil
		}
		if out.Hung {
			return hx.Failf("C13/"+st.Kind+"/hang", "%s: search did not end", ctx)
		}
		// the list the engine honours: listed moves that are legal; none of them legal = no restriction
		var list []string
		for _, m := range st.Moves {
			if _, ok := rp.FindUCI(m); ok {
				list = append(list, m)
			}
		}
		if len(list) > 0 {
			if f := bestInList(out.Result.BestMove, list, ctx, "api-later-search"); f != nil {
				return f
			}
			if len(out.Result.Pv) > 0 {
				if f := bestInList(out.Result.Pv[0], list, ctx+" (pv head)", "api-later-search"); f != nil {
					return f
				}
			}
			if prevList != nil && st.Play == "" {
				samePosRestricted++
			}
		} else if _, ok := rp.FindUCI(hx.FromEngine(out.Result.BestMove).UCI(true)); !ok {
			return hx.Failf("C13/sequence/illegal-best", "%s: best move %s is not legal", ctx, out.Result.BestMove.StringUci())
		}
		// "unless the root is terminal or has a single legal move": a searchmoves list of one move does not make
		// the root a single-move root - restricting the search to one move is how a move is analysed to a depth
		roots := len(legal)
		switch st.Kind {
		case "depth", "searchmoves", "plain":
			want := st.Value
			if roots == 1 {
				want = 1
			}
			if out.Result.SearchDepth != want {
				return hx.Failf("C13/depth/iterations-later-search", "%s: %d iterations completed, want %d (root moves %d)", ctx, out.Result.SearchDepth, want, roots)
			}
		case "nodes":
			if roots > 1 && out.Nodes > uint64(st.Value)+nodeOvershootAllowed {
				return hx.Failf("C13/nodes/overshoot-later-search", "%s: %d nodes visited (limit %d, allowed overshoot %d)", ctx, out.Nodes, st.Value, nodeOvershootAllowed)
			}
		}
		// an unrestricted search after a restricted one on the same position: at depth 1 every root move is
		// searched, so the number of root moves the engine reports must be the number of legal moves
		if len(list) == 0 && prevList != nil && st.Play == "" {
			o.Label("unrestricted-after-restricted-same-position")
		}
		o.Label("seq-limit:" + st.Kind)
		prevList = list
		if len(list) == 0 {
			prevList = nil
		}
	}
	if samePosRestricted > 0 {
		o.Label("two-searchmoves-lists-on-one-position")
		o.NTKey(fmt.Sprintf("%s|%v", c.Fen, c.Steps))
	} else if len(c.Steps) > 1 {
		o.NT("")
	}
	return nil
}

func genLimitSeq(t *rapid.T, maxDepth int, gen func(*rapid.T) rc.Pos) limitSeqCase {
	p := gen(t)
	c := limitSeqCase{Fen: p.FEN(), Settings: genSettings(t, hx.SearchBoolSwitches(), 60)}
	n := rapid.IntRange(2, 4).Draw(t, "searches")
	for i := 0; i < n; i++ {
		st := limitStep{}
		if i > 0 && rapid.IntRange(0, 2).Draw(t, "play") == 0 && len(p.Legal()) > 0 {
			m := hx.PickMove(t, &p, p.Legal(), 1)
			st.Play = m.UCI(true)
			p = p.Make(m)
		}
		if len(p.Legal()) == 0 {
			break
		}
		switch rapid.IntRange(0, 5).Draw(t, "kind") {
		case 0:
			st.Kind, st.Value = "nodes", rapid.IntRange(1, 20000).Draw(t, "nodes")
		case 1, 2:
			st.Kind, st.Value = "depth", rapid.IntRange(1, maxDepth).Draw(t, "depth")
		default:
			st.Kind, st.Value = "searchmoves", rapid.IntRange(1, maxDepth).Draw(t, "sdepth")
			st.Moves = genSubset(t, &p)
		}
		if st.Kind == "nodes" && rapid.IntRange(0, 2).Draw(t, "nodesWithList") == 0 {
			st.Moves = genSubset(t, &p)
		}
		c.Steps = append(c.Steps, st)
		c.NewGame = append(c.NewGame, i > 0 && rapid.IntRange(0, 5).Draw(t, "newgame") == 0)
	}
	return c
}

// ---- clock mode, measured: the time really used never exceeds the time on the mover's clock ------------
// (the allotted time is the budget PLUS whatever the engine adds later: after a book move the first
// searched move gets "extra time")

type clockCase struct {
	Fen       string `json:"fen"`
	ClockMs   int    `json:"clock_ms"`
	IncMs     int    `json:"inc_ms"`
	MovesToGo int    `json:"movestogo"`
	AfterBook bool   `json:"after_book_move"` // an earlier search of the same engine instance was answered from the opening book
}

func propC13Clock(c clockCase, o *hx.Obs) *hx.Failure {
	save := config.Settings
	defer func() { config.Settings = save }()
	rp := rc.MustParse(c.Fen)
	if len(rp.Legal()) < 2 {
		return nil
	}
	allowance := 250 * time.Millisecond
	run := func() (time.Duration, bool, string) {
		config.Settings = save
		if c.AfterBook {
			dir, err := os.MkdirTemp("", "verifclockbook")
			if err != nil {
				panic(err)
			}
			defer os.RemoveAll(dir)
			if err := os.WriteFile(filepath.Join(dir, "b.txt"), []byte("e2e4 e7e5\nd2d4 d7d5\n"), 0o644); err != nil {
				panic(err)
			}
			config.Settings.Search.UseBook = true
			config.Settings.Search.BookPath = dir
			config.Settings.Search.BookFile = "b.txt"
			config.Settings.Search.BookFormat = "Simple"
		}
		s := search.NewSearch()
		d := &hx.Driver{}
		s.SetUciHandler(d)
		defer s.StopSearch()
		// the mover has ClockMs on the clock, the opponent ten times as much (a budget or cap computed from the
		// wrong side's clock must show)
		lim := hx.LimSpec{Mode: "clock", WTime: c.ClockMs, BTime: 10 * c.ClockMs, WInc: c.IncMs, BInc: c.IncMs, MovesToGo: c.MovesToGo, StopAfterMs: -1, PonderHitAfterMs: -1}
		if !rp.White {
			lim.WTime, lim.BTime = 10*c.ClockMs, c.ClockMs
		}
		bookLim := hx.LimSpec{Mode: "clock", WTime: c.ClockMs, BTime: c.ClockMs, MovesToGo: c.MovesToGo, StopAfterMs: -1, PonderHitAfterMs: -1}
		if c.AfterBook {
			sp := rc.MustParse(rc.StartFEN)
			out := hx.RunSearch(s, d, hx.NewPos(rc.StartFEN), &sp, bookLim, 30*time.Second)
			if out.Hung || len(out.Sent) == 0 {
				return 0, false, "book search not answered"
			}
			if !out.Result.BookMove {
				return 0, false, "no book move in the start position"
			}
		}
		out := hx.RunSearch(s, d, hx.NewPos(c.Fen), &rp, lim, 30*time.Second)
		if out.Hung || len(out.Sent) == 0 {
			return 0, false, "no result within 30 s"
		}
		return out.Duration, true, ""
	}
	ctx := fmt.Sprintf("%s clock %d ms inc %d ms movestogo %d after-book-move=%v", c.Fen, c.ClockMs, c.IncMs, c.MovesToGo, c.AfterBook)
	dur, ok, why := run()
	o.Evals(1)
	if !ok {
		return hx.Failf("C13/clock/no-result", "%s: %s", ctx, why)
	}
	limit := time.Duration(c.ClockMs)*time.Millisecond + allowance
	if dur > limit {
		time.Sleep(300 * time.Millisecond)
		dur2, ok2, _ := run()
		if !ok2 || dur2 > limit {
			how := "plain"
			if c.AfterBook {
				how = "after-book-move"
			}
			return hx.Failf("C13/clock/uses-more-than-the-clock-"+how, "%s: best move after %v and %v - more than the %d ms on the clock (+%v allowance)", ctx, dur, dur2, c.ClockMs, allowance)
		}
		o.Label("clock-late-once-not-confirmed")
	}
	o.Label(fmt.Sprintf("limit:clock-measured-afterbook-%v", c.AfterBook))
	if float64(dur) > 0.5*float64(time.Duration(c.ClockMs)*time.Millisecond) {
		o.NTKey(ctx) // the search really was ended by its time budget (not by itself)
	}
	return nil
}

func tailLines(ls []hx.OutLine, n int) string {
	if len(ls) > n {
		ls = ls[len(ls)-n:]
	}
	var s []string
	for _, l := range ls {
		s = append(s, l.Text)
	}
	return strings.Join(s, " | ")
}

func bestInList(best types.Move, list []string, ctx, how string) *hx.Failure {
	for _, m := range list {
		if strings.EqualFold(m, hx.FromEngine(best).UCI(true)) {
			return nil
		}
	}
	return hx.Failf("C13/searchmoves/best-not-in-list-"+how, "%s: best move %s is not one of the listed moves", ctx, best.StringUci())
}

func genSubset(t *rapid.T, p *rc.Pos) []string {
	legal := p.Legal()
	if len(legal) == 0 {
		return nil
	}
	rc.SortMoves(legal)
	n := rapid.IntRange(1, minInt(4, len(legal))).Draw(t, "nmoves")
	perm := rapid.Permutation(legal).Draw(t, "perm")
	var out []string
	for _, m := range perm[:n] {
		out = append(out, m.UCI(true))
	}
	return out
}

// ---- searchmoves with the opening book switched on ---------------------------------------------
// A time-controlled search in a position the book knows must still answer with one of the listed moves.

type bookMovesCase struct {
	BookLines []string `json:"book_lines"`  // SAN lines from the start position
	Moves     []string `json:"searchmoves"` // subset of the legal root moves
	MoveTime  int      `json:"movetime_ms"`
}

func propC13BookMoves(c bookMovesCase, o *hx.Obs) *hx.Failure {
	save := config.Settings
	defer func() { config.Settings = save }()
	dir, err := os.MkdirTemp("", "verifc13book")
	if err != nil {
		panic(err)
	}
	defer os.RemoveAll(dir)
	if err := os.WriteFile(filepath.Join(dir, "b.san"), []byte(strings.Join(c.BookLines, "\n")+"\n"), 0o644); err != nil {
		panic(err)
	}
	config.Settings.Search.UseBook = true
	config.Settings.Search.BookPath = dir
	config.Settings.Search.BookFile = "b.san"
	config.Settings.Search.BookFormat = "San"
	rp := rc.MustParse(rc.StartFEN)
	ep := hx.NewPos(rc.StartFEN)
	s := search.NewSearch()
	d := &hx.Driver{}
	s.SetUciHandler(d)
	out := hx.RunSearch(s, d, ep, &rp, hx.LimSpec{Mode: "movetime", MoveTime: c.MoveTime, Moves: c.Moves, StopAfterMs: -1, PonderHitAfterMs: -1}, 60*time.Second)
	o.Evals(1)
	if out.Hung {
		return hx.Failf("C13/searchmoves/hang", "search with book and searchmoves %v did not end", c.Moves)
	}
	ctx := fmt.Sprintf("start position, book of %d lines, movetime %d ms, searchmoves %v (book move: %v)", len(c.BookLines), c.MoveTime, c.Moves, out.Result.BookMove)
	if f := bestInList(out.Result.BestMove, c.Moves, ctx, "with-book"); f != nil {
		return f
	}
	o.NT("")
	return nil
}

func TestC13(t *testing.T) {
	r := hx.NewRec(t, "C13")
	defer r.Finish()
	r.Inflight(true)
	r.Assume("movetime allowance 250 ms over the requested time (typical latency is a few ms), a late result is re-run once before it is reported")
	r.Assume(fmt.Sprintf("node limit: overshoot of up to %d nodes allowed (quiescence sub-trees check the limit only when they return)", nodeOvershootAllowed))
	r.Assume("budget clause: M = movestogo, or 15 when none is announced")
	r.Assume("the depth clause is checked for ordinary (non-ponder) depth-limited searches; 'go ponder depth N' + ponderhit ends at once in this engine (noted in DESIGN.md 8.5, not taken up)")

	// (a) budget function: drawn parameters
	hx.Sub(r, "budget", r.N(60000, 400000), func(t *rapid.T) budgetCase {
		rem := rapid.Int64Range(1, 3*3600*1000).Draw(t, "remaining")
		switch rapid.IntRange(0, 3).Draw(t, "scale") {
		case 0:
			rem = rapid.Int64Range(1, 100).Draw(t, "remSmall")
		case 1:
			rem = rapid.Int64Range(100, 60000).Draw(t, "remMid")
		}
		inc := rapid.Int64Range(0, 2*rem).Draw(t, "inc")
		switch rapid.IntRange(0, 3).Draw(t, "incScale") {
		case 0:
			inc = 0
		case 1:
			inc = rapid.Int64Range(0, 50*rem+1000).Draw(t, "incHuge")
		}
		return budgetCase{Fen: rapid.SampledFrom(phaseFens).Draw(t, "fen"), RemainMs: rem, IncMs: inc, OtherMs: rapid.Int64Range(0, 3*3600*1000).Draw(t, "other"),
			OtherInc: rapid.Int64Range(0, 60000).Draw(t, "otherInc"), MovesToGo: rapid.SampledFrom([]int{0, 0, 1, 1, 2, 3, 5, 10, 15, 16, 20, 40, 80}).Draw(t, "mtg")}
	}, propC13Budget)
	// (a') fixed grid
	hx.Enum(r, "budget-grid", true, func(yield func(budgetCase) bool) {
		for _, fen := range phaseFens {
			for _, rem := range []int64{1, 5, 50, 99, 100, 101, 1000, 10000, 60000, 600000, 3600000, 10800000} {
				for _, incF := range []float64{0, 0.001, 0.1, 0.5, 1, 2, 10, 1000} {
					for _, mtg := range []int{0, 1, 2, 3, 15, 40, 80} {
						if !yield(budgetCase{Fen: fen, RemainMs: rem, IncMs: int64(float64(rem) * incF), OtherMs: rem, MovesToGo: mtg}) {
							return
						}
					}
				}
			}
		}
	}, propC13Budget)

	genPos := func(t *rapid.T) rc.Pos {
		p := hx.GenPosition(t)
		for tries := 0; len(p.Legal()) < 2 && tries < 5; tries++ {
			p = hx.GenPosition(t)
		}
		return p
	}
	hx.Sub(r, "depth", r.N(250, 3000), func(t *rapid.T) limitCase {
		p := genPos(t)
		return limitCase{Fen: p.FEN(), Kind: "depth", Value: rapid.IntRange(1, r.N(5, 7)).Draw(t, "d"), Settings: genSettings(t, hx.SearchBoolSwitches(), 60)}
	}, propC13Limit)
	hx.Sub(r, "nodes", r.N(250, 3000), func(t *rapid.T) limitCase {
		p := rc.MustParse(hx.GenSeedFEN(t))
		return limitCase{Fen: p.FEN(), Kind: "nodes", Value: rapid.IntRange(1, 30000).Draw(t, "n"), Settings: genSettings(t, hx.SearchBoolSwitches(), 60)}
	}, propC13Limit)
	hx.Sub(r, "searchmoves", r.N(250, 3000), func(t *rapid.T) limitCase {
		p := genPos(t)
		return limitCase{Fen: p.FEN(), Kind: "searchmoves", Value: rapid.IntRange(1, 4).Draw(t, "d"), Moves: genSubset(t, &p), Settings: genSettings(t, hx.SearchBoolSwitches(), 60)}
	}, propC13Limit)
	hx.Sub(r, "searchmoves-book", r.N(25, 250), func(t *rapid.T) bookMovesCase {
		lines := []string{"1. e4 e5 2. Nf3 Nc6", "1. d4 d5 2. c4 e6", "1. c4 e5", "1. Nf3 d5", "1. e4 c5"}
		n := rapid.IntRange(1, len(lines)).Draw(t, "nlines")
		p := rc.MustParse(rc.StartFEN)
		return bookMovesCase{BookLines: lines[:n], Moves: genSubset(t, &p), MoveTime: rapid.IntRange(15, 40).Draw(t, "mt")}
	}, propC13BookMoves)
	hx.Sub(r, "searchmoves-uci", r.N(40, 400), func(t *rapid.T) limitCase {
		p := genPos(t)
		return limitCase{Fen: p.FEN(), Kind: "searchmoves-uci", Value: rapid.IntRange(1, 3).Draw(t, "d"), Moves: genSubset(t, &p)}
	}, propC13Limit)
	hx.Sub(r, "limit-sequences", r.N(250, 3000), func(t *rapid.T) limitSeqCase { return genLimitSeq(t, r.N(4, 5), genPos) }, propC13Seq)
	// (b) timing: few, serial
	hx.Sub(r, "clock-measured", r.N(16, 120), func(t *rapid.T) clockCase {
		p := rc.MustParse(hx.GenSeedFEN(t))
		for tries := 0; len(p.Legal()) < 10 && tries < 8; tries++ {
			p = rc.MustParse(hx.GenSeedFEN(t))
		}
		clk := rapid.IntRange(400, 700).Draw(t, "clock")
		return clockCase{Fen: p.FEN(), ClockMs: clk, IncMs: rapid.SampledFrom([]int{0, 0, clk, 3 * clk}).Draw(t, "inc"),
			MovesToGo: rapid.SampledFrom([]int{1, 1, 1, 2, 0}).Draw(t, "mtg"), AfterBook: rapid.Bool().Draw(t, "afterBook")}
	}, propC13Clock)
	hx.Sub(r, "movetime", r.N(20, 150), func(t *rapid.T) limitCase {
		p := rc.MustParse(hx.GenSeedFEN(t))
		return limitCase{Fen: p.FEN(), Kind: "movetime", Value: rapid.IntRange(20, 200).Draw(t, "ms")}
	}, propC13Limit)
}
