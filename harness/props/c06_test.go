package props

import (
	"fmt"
	"testing"
	"time"

	"github.com/frankkopp/FrankyGo/internal/config"
	"github.com/frankkopp/FrankyGo/internal/evaluator"
	"github.com/frankkopp/FrankyGo/internal/position"
	"github.com/frankkopp/FrankyGo/internal/search"
	"github.com/frankkopp/FrankyGo/internal/types"
	"github.com/frankkopp/FrankyGo/verifharness/hx"
	rc "github.com/frankkopp/FrankyGo/verifharness/refchess"
	"pgregory.net/rapid"
)

// ---------------------------------------------------------------------------
// C06 — with only sound techniques enabled the search value is the exact minimax value.
// ---------------------------------------------------------------------------

var soundSwitches = []string{"UsePVS", "UseKiller", "UseHistoryCounter", "UseCounterMoves", "UseIID", "UseMDP", "UseTT"}

type c06Case struct {
	Play       hx.Playout `json:"history"`
	Depth      int        `json:"depth"`
	Quiescence bool       `json:"quiescence"`
	Combos     []int      `json:"switch_combinations"` // bit i = soundSwitches[i]
}

// soundConfig switches every unsound heuristic off and applies one combination of the sound switches.
func soundConfig(combo int, quiescence bool) {
	s := &config.Settings.Search
	s.UseBook = false
	s.UseQuiescence = quiescence
	s.UseRazoring, s.UseRFP, s.UseNullMove = false, false, false
	s.UseExt, s.UseExtAddDepth, s.UseCheckExt, s.UseThreatExt = false, false, false, false
	s.UseFP, s.UseQFP, s.UseLmp, s.UseLmr = false, false, false, false
	s.UseAspiration, s.UseMTDf, s.UseEvalTT = false, false, false
	s.IIDDepth, s.IIDReduction = 2, 1
	s.UseTTMove, s.UseTTValue = true, false // hash table for move ordering only
	s.UsePVS = combo&1 != 0
	s.UseKiller = combo&2 != 0
	s.UseHistoryCounter = combo&4 != 0
	s.UseCounterMoves = combo&8 != 0
	s.UseIID = combo&16 != 0
	s.UseMDP = combo&32 != 0
	s.UseTT = combo&64 != 0
	s.UseQSTT = combo&64 != 0
}

func comboName(combo int) string {
	s := ""
	for i, n := range soundSwitches {
		if combo&(1<<uint(i)) != 0 {
			s += n[3:] + "+"
		}
	}
	if s == "" {
		return "all-off"
	}
	return s[:len(s)-1]
}

type refSearch struct {
	ev        *evaluator.Evaluator
	nodes     int
	terminals int
	drift     bool
}

// rawPhase is the uncapped sum of the per-piece game phase values.
func rawPhase(p *rc.Pos) int {
	n := 0
	for _, pc := range p.B {
		switch rc.Upper(pc) {
		case 'N', 'B':
			n++
		case 'R':
			n += 2
		case 'Q':
			n += 4
		}
	}
	return n
}

// driftPossible: a promotion here could push the stored (clamped) game phase over its cap
// (listed known finding, game-phase drift) - such trees are excluded from C06 by construction.
func driftPossible(p *rc.Pos) bool {
	if rawPhase(p) < 20 {
		return false
	}
	for sq, pc := range p.B {
		if (pc == 'P' && rc.RankOf(sq) == 6) || (pc == 'p' && rc.RankOf(sq) == 1) {
			return true
		}
	}
	return false
}

// rootDrifted: the engine's stored game phase of the root already differs from the capped sum over the board.
func rootDrifted(root *rc.Pos, ep *position.Position) bool {
	want := rawPhase(root)
	if want > 24 {
		want = 24
	}
	return ep.GamePhase() != want
}

// negamax is the plain reference: no pruning, no ordering, moves from the rules oracle,
// leaf value = the engine's static evaluation, terminal scores as stated in the property.
func (r *refSearch) negamax(ep *position.Position, rp *rc.Pos, depth, ply int) int {
	r.nodes++
	// (a leaf is evaluated statically - quiescence is off here - so no promotion is made or tried there)
	if depth > 0 && driftPossible(rp) {
		r.drift = true
	}
	if depth == 0 {
		return int(r.ev.Evaluate(ep)) // depth-d leaf: the engine's own leaf evaluation
	}
	legal := rp.Legal()
	if len(legal) == 0 {
		r.terminals++
		if rp.InCheck(rp.White) {
			return -int(types.ValueCheckMate) + ply
		}
		return 0
	}
	best := -1 << 30
	for _, m := range legal {
		n := rp.Make(m)
		ep.DoMove(hx.ToEngine(m))
		var v int
		if ep.CheckRepetitions(2) || ep.HalfMoveClock() >= 100 {
			r.terminals++
			v = 0
		} else {
			v = -r.negamax(ep, &n, depth-1, ply+1)
		}
		ep.UndoMove()
		if v > best {
			best = v
		}
	}
	return best
}

func propC06(c c06Case, o *hx.Obs) *hx.Failure {
	save := config.Settings
	defer func() { config.Settings = save }()

	poss, moves := c.Play.Replay()
	root := poss[len(poss)-1]
	legal := root.Legal()
	if len(legal) == 0 {
		return nil
	}
	mkPos := func() *position.Position {
		ep := hx.NewPos(c.Play.Start)
		for _, m := range moves {
			ep.DoMove(hx.ToEngine(m))
		}
		return ep
	}
	depth := c.Depth
	if len(legal) == 1 {
		depth = 1 // a single legal move is answered after the first iteration
		o.Label("single-legal-move-root")
	}
	runEngine := func(combo int) (hx.SearchOutcome, *hx.Failure) {
		soundConfig(combo, c.Quiescence)
		s := search.NewSearch()
		d := &hx.Driver{}
		s.SetUciHandler(d)
		ep := mkPos()
		out := hx.RunSearch(s, d, ep, &root, hx.LimSpec{Mode: "depth", Depth: c.Depth, StopAfterMs: -1, PonderHitAfterMs: -1}, 120*time.Second)
		if out.Slow {
			return out, nil
		}
		if out.Hung {
			return out, hx.Failf("C06/hang", "search depth %d on %s (%s) did not end", c.Depth, root.FEN(), comboName(combo))
		}
		return out, nil
	}
	ctx := fmt.Sprintf("%s (after %d plies from %s) depth %d", root.FEN(), len(moves), c.Play.Start, c.Depth)

	if !c.Quiescence {
		// part 1: exact minimax value
		soundConfig(0, false)
		ref := &refSearch{ev: evaluator.NewEvaluator()}
		ep := mkPos()
		// reference value of every root move (root: draw test after the move as everywhere else)
		moveVal := map[rc.Move]int{}
		want := -1 << 30
		for _, m := range legal {
			n := root.Make(m)
			ep.DoMove(hx.ToEngine(m))
			var v int
			if ep.CheckRepetitions(2) || ep.HalfMoveClock() >= 100 {
				ref.terminals++
				v = 0
			} else {
				v = -ref.negamax(ep, &n, depth-1, 1)
			}
			ep.UndoMove()
			moveVal[m] = v
			if v > want {
				want = v
			}
		}
		// a start position with more than 24 phase points (or a history through one) leaves the stored game phase
	// below the true value; later captures then hit the lower clamp - the same listed finding
	if rootDrifted(&root, mkPos()) {
		ref.drift = true
	}
	if ref.drift || driftPossible(&root) {
			recC06.Excluded("tree contains a position where the known game-phase drift can occur (>=20 phase points and a pawn on its 7th rank)", 1)
			return nil
		}
		o.Evals(ref.nodes)
		for _, combo := range c.Combos {
			out, f := runEngine(combo)
			if f != nil {
				return f
			}
			if out.Slow {
				o.Label("slow-search-stopped-by-harness(inconclusive)")
				return nil
			}
			res := out.Result
			if int(res.BestValue) != want {
				return hx.Failf("C06/value-not-minimax/"+sigOfCombo(combo), "%s switches %s: search value %d, plain minimax value %d (best move %s, reference values %v)", ctx, comboName(combo), res.BestValue, want, res.BestMove.StringUci(), fmtMoveVals(moveVal))
			}
			bm := hx.FromEngine(res.BestMove)
			if v, ok := moveVal[bm]; !ok || v != want {
				return hx.Failf("C06/bestmove-does-not-attain-value/"+sigOfCombo(combo), "%s switches %s: best move %s has minimax value %d, the root value is %d", ctx, comboName(combo), res.BestMove.StringUci(), v, want)
			}
			if len(legal) > 1 && res.SearchDepth != c.Depth {
				return hx.Failf("C06/depth-not-reached", "%s switches %s: search depth %d", ctx, comboName(combo), res.SearchDepth)
			}
			st := out.Stats
			if st.PvsResearches+st.RootPvsResearches > 0 {
				o.Label("pvs-research")
			}
			if st.Mdp > 0 {
				o.Label("mdp-cut")
			}
			if st.TTMoveUsed > 0 {
				o.Label("tt-move-used")
			}
			if st.IIDsearches > 0 {
				o.Label("iid-search")
			}
			if ref.terminals > 0 || st.PvsResearches+st.RootPvsResearches+st.Mdp+st.TTMoveUsed+st.IIDsearches > 0 {
				o.NTKey(fmt.Sprintf("%s|%d|%d", root.FEN(), c.Depth, combo))
			}
		}
		if ref.terminals > 0 {
			o.Label("tree-with-terminal(mate/stalemate/draw)")
		}
		if types.Value(want).IsCheckMateValue() {
			o.Label("mate-score")
		}
		return nil
	}

	// part 2: quiescence on - the root value is identical across all combinations of the sound switches
	if hasDriftInTree(&root, c.Depth+2) || rootDrifted(&root, mkPos()) {
		recC06.Excluded("quiescence case with possible game-phase drift near the root", 1)
		return nil
	}
	base, f := runEngine(0)
	if f != nil {
		return f
	}
	if base.Slow {
		o.Label("slow-search-stopped-by-harness(inconclusive)")
		return nil
	}
	o.Evals(1)
	for _, combo := range c.Combos {
		if combo == 0 {
			continue
		}
		out, f := runEngine(combo)
		if f != nil {
			return f
		}
		if out.Slow {
			o.Label("slow-search-stopped-by-harness(inconclusive)")
			return nil
		}
		o.Evals(1)
		if out.Result.BestValue != base.Result.BestValue {
			return hx.Failf("C06/quiescence-value-depends-on-sound-switch/"+sigOfCombo(combo), "%s quiescence on: value %d with all sound switches off, %d with %s", ctx, base.Result.BestValue, out.Result.BestValue, comboName(combo))
		}
		st := out.Stats
		if st.PvsResearches+st.RootPvsResearches+st.Mdp+st.TTMoveUsed+st.IIDsearches+st.Checkmates+st.Stalemates > 0 {
			o.NTKey(fmt.Sprintf("q|%s|%d|%d", root.FEN(), c.Depth, combo))
		}
	}
	o.Label("quiescence-on")
	return nil
}

// hasDriftInTree: bounded look-ahead for the drift exclusion in the quiescence part (captures can go
// deeper than the nominal depth; the static pre-condition is tested on the root and two plies of captures).
func hasDriftInTree(p *rc.Pos, d int) bool {
	if driftPossible(p) {
		return true
	}
	// the quiescence search goes deeper than any fixed horizon: every pawn that can reach its promotion
	// square within the search (5th rank or beyond) may add a queen (4 points) to the stored sum
	advanced := 0
	for sq, pc := range p.B {
		if (pc == 'P' && rc.RankOf(sq) >= 4) || (pc == 'p' && rc.RankOf(sq) <= 3) {
			advanced++
		}
	}
	if rawPhase(p)+4*advanced > 24 {
		return true
	}
	if rawPhase(p) < 20 {
		return false // captures only lower the sum and the promotions are accounted for above
	}
	if d == 0 {
		return false
	}
	for _, m := range p.Legal() {
		n := p.Make(m)
		if hasDriftInTree(&n, d-1) {
			return true
		}
	}
	return false
}

func sigOfCombo(combo int) string {
	// signature names the switches that are ON (root-cause class = which technique is involved)
	return comboName(combo)
}

func fmtMoveVals(m map[rc.Move]int) string {
	var ms []rc.Move
	for k := range m {
		ms = append(ms, k)
	}
	rc.SortMoves(ms)
	s := ""
	for _, k := range ms {
		s += fmt.Sprintf("%s:%d ", k.UCI(true), m[k])
	}
	return s
}

var recC06 *hx.Rec

var mateNets = []string{
	"6k1/5ppp/8/8/8/8/8/R5K1 w - - 0 1", "7k/8/5K2/6Q1/8/8/8/8 w - - 0 1", "k7/8/1K6/8/8/8/8/7R w - - 0 1",
	"7k/5K2/6R1/8/8/8/8/8 w - - 0 1", "5k2/5P2/5K2/8/8/8/8/8 w - - 0 1", "8/8/8/3k4/8/8/1Q6/K7 w - - 0 1",
	"8/8/8/8/8/5k2/6q1/7K w - - 0 1", "7k/5Q2/6K1/8/8/8/8/8 b - - 0 1", "k7/2Q5/1K6/8/8/8/8/8 b - - 0 1",
	"6k1/5ppp/8/8/8/8/5PPP/3RR1K1 w - - 0 1", "r5k1/5ppp/8/8/8/8/5PPP/3R2K1 w - - 0 1", "6rk/6pp/7N/8/8/8/8/6RK w - - 0 1",
	"8/8/8/8/8/2k5/1r6/K7 w - - 0 1", "8/8/8/8/8/1k6/2q5/K7 w - - 0 1", "k7/P7/K7/8/8/8/8/8 b - - 0 1",
	"4k3/R7/4K3/8/8/8/8/8 w - - 0 1", "3k4/R7/3K4/8/8/8/8/8 b - - 0 1", "8/8/8/8/8/4k3/3qq3/4K3 w - - 0 1",
	"1k6/ppp5/8/8/8/8/8/K2R4 w - - 0 1", "1k1r4/ppp5/8/8/8/8/PPP5/1K1R4 w - - 0 1", "5rk1/5ppp/8/8/8/8/1Q6/K5R1 w - - 0 1",
	"8/8/8/8/1n6/k7/8/K7 b - - 0 1", "8/6P1/8/8/8/8/k1K5/8 w - - 0 1", "8/8/8/8/8/k7/p1K5/8 b - - 0 1",
}

func genC06(t *rapid.T, maxDepth int, quiescence bool) c06Case {
	var p rc.Pos
	isNet := false
	fixed := func(pl hx.Playout) c06Case {
		c := c06Case{Quiescence: quiescence, Play: pl}
		poss, _ := pl.Replay()
		root := poss[len(poss)-1]
		n := len(root.Legal())
		c.Depth = rapid.IntRange(1, maxDepth).Draw(t, "depth")
		for c.Depth > 1 && pow(n+1, c.Depth) > 60000 {
			c.Depth--
		}
		c.Combos = []int{0, 127, 1 << uint(rapid.IntRange(0, 6).Draw(t, "single")), rapid.IntRange(1, 126).Draw(t, "combo2")} // all off, all on, one technique alone (nothing masks its errors), a drawn mix
		return c
	}
	switch rapid.IntRange(0, 14).Draw(t, "src") {
	case 11, 12, 13, 14: // openings: castling rights still held and the uncastled kings open to checks along diagonals and files -
		// interior nodes in check whose replies include interpositions, with castling moves "available" next to them
		open := []string{rc.StartFEN, "rnbqkbnr/pppp1ppp/8/4p3/4P3/8/PPPP1PPP/RNBQKBNR w KQkq - 0 2", "rnbqkbnr/ppp1pppp/8/3p4/3P4/8/PPP1PPPP/RNBQKBNR w KQkq - 0 2",
			"rnbqk2r/pppp1ppp/5n2/2b1p3/2B1P3/3P1N2/PPP2PPP/RNBQK2R b KQkq - 0 4", "r1bqk2r/pppp1ppp/2n2n2/2b1p3/2B1P3/2NP1N2/PPP2PPP/R1BQK2R b KQkq - 0 5",
			"r3k2r/pppq1ppp/2npbn2/2b1p3/2B1P3/2NPBN2/PPPQ1PPP/R3K2R w KQkq - 0 8", "rnbqk2r/ppp1ppbp/3p1np1/8/2PPP3/2N5/PP3PPP/R1BQKBNR w KQkq - 0 5"}
		q := rc.MustParse(open[rapid.IntRange(0, len(open)-1).Draw(t, "opening")])
		pl := hx.GenPlayoutFrom(t, q, rapid.IntRange(0, 14).Draw(t, "openingPlies"), 2)
		// prefer roots where a check can be answered by a pawn-push interposition while the checked king still
		// has a castling right with a free path (construction by bounded re-drawing, counted by label)
		for try := 0; try < 30 && !castleCheckShape(pl); try++ {
			q = rc.MustParse(open[rapid.IntRange(0, len(open)-1).Draw(t, "opening2")])
			pl = hx.GenPlayoutFrom(t, q, rapid.IntRange(2, 16).Draw(t, "openingPlies2"), 2)
		}
		c := fixed(pl)
		// depth 3 whenever the reference tree allows it (an interior node needs a hash move from an earlier iteration)
		poss, _ := c.Play.Replay()
		if n := len(poss[len(poss)-1].Legal()); maxDepth >= 3 && pow(n+1, 3) <= 60000 {
			c.Depth = 3
		}
		return c
	case 8: // one ply before a forced reply (ep evasion / interposing double step / promotion / <= 2 moves)
		fc := hx.GenForced(t)
		start := fc.Fen
		if fc.Pred != "" && rapid.IntRange(0, 3).Draw(t, "fromPred") != 0 {
			start = fc.Pred
		}
		// forced replies at the fifty-move boundary: every quiet reply is a draw
		if q := rc.MustParse(start); q.EP < 0 && rapid.Bool().Draw(t, "forcedHighClock") {
			q.Half = rapid.IntRange(96, 99).Draw(t, "forcedHalf")
			start = q.FEN()
		}
		return fixed(hx.Playout{Start: start})
	case 9, 10: // shuffle history: the tree meets second / third occurrences at clocks 4, 8, 12 above the start clock
		q := hx.GenStart(t, 6)
		if q.EP < 0 {
			q.Half = rapid.SampledFrom([]int{0, 0, 0, 0, 0, 1, 2, 3, 88, 91, 92, 95}).Draw(t, "startClock")
		}
		if pl, ok := hx.GenShuffleHistory(t, q, 3); ok {
			return fixed(pl)
		}
		p = q
		c := fixed(hx.GenPlayoutFrom(t, p, 16, 2))
		return c
	}
	switch rapid.IntRange(0, 7).Draw(t, "src2") {
	case 6, 7: // mating / stalemating nets so that mate scores, MDP cuts and terminal nodes occur
		p = rc.MustParse(mateNets[rapid.IntRange(0, len(mateNets)-1).Draw(t, "net")])
		isNet = true
		if rapid.Bool().Draw(t, "mirrorNet") {
			p = p.Mirror()
		}
	case 0, 1:
		p = hx.GenConstructed(t, 5)
	case 2:
		p = hx.GenConstructed(t, 10)
	case 3:
		p = hx.GenConstructed(t, 14)
	default:
		p = rc.MustParse(hx.GenSeedFEN(t))
	}
	if p.EP < 0 && rapid.IntRange(0, 2).Draw(t, "highClock") == 0 {
		p.Half = rapid.IntRange(94, 99).Draw(t, "half")
	}
	c := c06Case{Quiescence: quiescence}
	maxPlies := 16
	if isNet {
		maxPlies = 2
	}
	c.Play = hx.GenPlayoutFrom(t, p, maxPlies, 2)
	// depth bounded by the size of the plain minimax tree
	poss, _ := c.Play.Replay()
	root := poss[len(poss)-1]
	n := len(root.Legal())
	c.Depth = rapid.IntRange(1, maxDepth).Draw(t, "depth")
	for c.Depth > 1 && pow(n+1, c.Depth) > 60000 {
		c.Depth--
	}
	c.Combos = []int{0, 127, 1 << uint(rapid.IntRange(0, 6).Draw(t, "single")), rapid.IntRange(1, 126).Draw(t, "combo2")} // all off, all on, one technique alone (nothing masks its errors), a drawn mix
	return c
}

// castleCheckShape: the root's side to move has a check after which the checked side (a) still holds a castling
// right with an empty path between king and rook and (b) can interpose a pawn by a quiet push.
func castleCheckShape(pl hx.Playout) bool {
	poss, _ := pl.Replay()
	root := poss[len(poss)-1]
	for _, m := range root.Legal() {
		n := root.Make(m)
		if !n.InCheck(n.White) {
			continue
		}
		k, q := 0, 1
		rank := 0
		if !n.White {
			k, q, rank = 2, 3, 7
		}
		free := func(files ...int) bool {
			for _, f := range files {
				if n.B[rc.Sq(f, rank)] != 0 {
					return false
				}
			}
			return true
		}
		if !(n.Castle[k] && free(5, 6)) && !(n.Castle[q] && free(1, 2, 3)) {
			continue
		}
		for _, r := range n.Legal() {
			if rc.Upper(n.B[r.From]) == 'P' && rc.FileOf(r.From) == rc.FileOf(r.To) && r.Kind == rc.Normal {
				return true
			}
		}
	}
	return false
}

func pow(b, e int) int {
	r := 1
	for i := 0; i < e; i++ {
		r *= b
		if r > 1<<40 {
			return r
		}
	}
	return r
}

func TestC06(t *testing.T) {
	r := hx.NewRec(t, "C06")
	defer r.Finish()
	recC06 = r
	r.Inflight(true)
	r.Assume("unsound heuristics off: razoring, RFP, null move, all extensions, FP, QFP, LMP, LMR, aspiration, MTDf, eval-TT; hash table for move ordering only (UseTTMove=true, UseTTValue=false); IIDDepth=2, IIDReduction=1 so that IID triggers")
	r.Assume("reference: plain negamax over refchess legal moves on an engine Position (DoMove/UndoMove/Evaluate/CheckRepetitions are trusted here and decided by C02/C03/C10/C15); a depth-d leaf is valued by the static evaluation (as the engine does), interior nodes without legal move -mate+ply / 0, a move leading to a twofold-repeated position or clock >= 100 is 0")
	r.Assume("trees containing a position where the listed game-phase drift can occur are excluded by construction and counted")

	hx.Sub(r, "minimax", r.N(900, 6000), func(t *rapid.T) c06Case { return genC06(t, r.N(3, 4), false) }, propC06)
	hx.Sub(r, "quiescence-invariance", r.N(600, 5000), func(t *rapid.T) c06Case { return genC06(t, r.N(3, 4), true) }, propC06)
}
