package props

import (
	"fmt"
	"os"
	"strconv"
	"strings"
	"testing"

	"github.com/frankkopp/FrankyGo/internal/attacks"
	"github.com/frankkopp/FrankyGo/internal/evaluator"
	"github.com/frankkopp/FrankyGo/internal/movegen"
	"github.com/frankkopp/FrankyGo/internal/position"
	"github.com/frankkopp/FrankyGo/internal/types"
	"github.com/frankkopp/FrankyGo/verifharness/hx"
	rc "github.com/frankkopp/FrankyGo/verifharness/refchess"
	"pgregory.net/rapid"
)

// ---------------------------------------------------------------------------
// C16 (part 1) — position set-up from FEN is total.
// ---------------------------------------------------------------------------

type fenCase struct {
	Input string `json:"input"`
}

// wellFormedAfterMove: the internal tables of a position reached by the engine's own moves are still
// mutually consistent (the known game-phase drift, a listed finding of C03/C04, is not judged here).
func wellFormedAfterMove(p *position.Position, ctx string) *hx.Failure {
	f := checkSums(p, ctx)
	if f != nil && strings.Contains(f.Sig, "gamePhase") {
		return nil
	}
	return f
}

// exerciseAccepted runs the engine's own generators and predicates on an accepted position.
func exerciseAccepted(p *position.Position) *hx.Failure {
	mg := movegen.NewMoveGen()
	p.HasCheck()
	for sq := types.SqA1; sq <= types.SqH8; sq++ {
		for _, c := range []types.Color{types.White, types.Black} {
			p.IsAttacked(sq, c)
			attacks.AttacksTo(p, sq, c)
		}
	}
	mg.GeneratePseudoLegalMoves(p, movegen.GenAll, false)
	mg.GeneratePseudoLegalMoves(p, movegen.GenAll, true)
	legal := mg.GenerateLegalMoves(p, movegen.GenAll).Clone()
	mg.HasLegalMove(p)
	mg2 := movegen.NewMoveGen()
	for n := 0; n < 300; n++ {
		if mg2.GetNextMove(p, movegen.GenAll, p.HasCheck()) == types.MoveNone {
			break
		}
	}
	evaluator.NewEvaluator().Evaluate(p)
	// what a search does with the position: make every pseudo-legal move, test its legality afterwards, and
	// generate / evaluate below it; the position must stay consistent on the way
	start := p.StringFen()
	pseudo := mg.GeneratePseudoLegalMoves(p, movegen.GenAll, false).Clone()
	mg3 := movegen.NewMoveGen()
	for _, m := range *pseudo {
		p.DoMove(m)
		if p.WasLegalMove() {
			if f := wellFormedAfterMove(p, fmt.Sprintf("%s after %s", start, m.StringUci())); f != nil {
				return f
			}
			p.HasCheck()
			for _, m2 := range *mg3.GeneratePseudoLegalMoves(p, movegen.GenAll, p.HasCheck()).Clone() {
				p.DoMove(m2)
				if p.WasLegalMove() {
					if f := wellFormedAfterMove(p, fmt.Sprintf("%s after %s %s", start, m.StringUci(), m2.StringUci())); f != nil {
						return f
					}
				}
				p.UndoMove()
			}
			mg3.HasLegalMove(p)
			evaluator.NewEvaluator().Evaluate(p)
		}
		p.UndoMove()
	}
	for _, m := range *legal {
		p.GivesCheck(m)
		p.DoMove(m)
		p.HasCheck()
		p.HasInsufficientMaterial()
		p.UndoMove()
	}
	p.CheckRepetitions(2)
	_ = p.String()
	return nil
}

func fenClass(s string) string {
	f := strings.Fields(s)
	switch {
	case len(f) == 0:
		return "empty"
	case strings.Count(f[0], "/") != 7:
		return "rank-count"
	}
	for _, r := range strings.Split(f[0], "/") {
		n := 0
		for _, c := range r {
			if c >= '0' && c <= '9' {
				n += int(c - '0')
			} else {
				n++
			}
		}
		if n != 8 {
			return "rank-length"
		}
	}
	if strings.Count(f[0], "K") != 1 || strings.Count(f[0], "k") != 1 {
		return "king-count"
	}
	if len(f) >= 4 && f[3] != "-" {
		return "with-ep-field"
	}
	return "other"
}

func propC16Fen(c fenCase, o *hx.Obs) *hx.Failure {
	in := c.Input
	cls := fenClass(in)
	var p *position.Position
	var err error
	if f := hx.Guard("C16/fen-setup", func() *hx.Failure { p, err = position.NewPositionFen(in); return nil }); f != nil {
		f.Sig = "C16/fen-setup/panic/" + cls
		f.Msg = fmt.Sprintf("NewPositionFen(%q): %s", in, f.Msg)
		return f
	}
	ref, rerr := rc.ParseFEN(in)
	// "a legal position's FEN" = standard text: fields separated by single spaces (tabs / runs of
	// spaces are not FEN; the engine may reject them)
	legalRef := rerr == nil && ref.Validate() == nil && strings.Join(strings.Fields(in), " ") == strings.TrimSpace(in) && !strings.ContainsAny(in, "\t\n\r")
	// clocks and move numbers beyond anything a game can reach (the 75-move rule bounds a game at below 9000
	// moves) do not belong to a legal position: such a FEN may be rejected or accepted, but must round-trip if accepted
	if legalRef && (ref.Half > 1000 || ref.Full > 100000) {
		legalRef = false
	}
	if rerr != nil || !legalRef {
		o.NT("")
		o.Label("input-not-a-legal-position:" + cls)
	} else {
		o.Label("input-legal-position")
	}
	if err != nil || p == nil {
		if legalRef {
			return hx.Failf("C16/fen-setup/rejects-legal-position", "NewPositionFen(%q) = error %v for a legal position", in, err)
		}
		o.Label("rejected")
		return nil
	}
	o.Label("accepted")
	// (i) well-formed: board, bitboards, king squares, totals mutually consistent, one king per side
	if f := checkSums(p, fmt.Sprintf("accepted FEN %q", in)); f != nil {
		if f.Sig == "C04/sums/kingSquare" {
			f.Sig = "C16/fen-accepted/king-count"
		} else {
			f.Sig = strings.Replace(f.Sig, "C04/sums/", "C16/fen-accepted/inconsistent-", 1)
		}
		return f
	}
	wk, bk := p.PiecesBb(types.White, types.King).PopCount(), p.PiecesBb(types.Black, types.King).PopCount()
	if wk != 1 || bk != 1 {
		return hx.Failf("C16/fen-accepted/king-count", "NewPositionFen(%q) accepted with %d white and %d black kings", in, wk, bk)
	}
	// (ii) the FEN output parses back to the same position
	out := p.StringFen()
	var p2 *position.Position
	var err2 error
	if f := hx.Guard("C16/fen-reparse", func() *hx.Failure { p2, err2 = position.NewPositionFen(out); return nil }); f != nil {
		f.Msg = fmt.Sprintf("input %q -> FEN %q: %s", in, out, f.Msg)
		return f
	}
	if err2 != nil || p2 == nil {
		return hx.Failf("C16/fen-roundtrip/output-rejected", "input %q accepted, its FEN output %q is rejected: %v", in, out, err2)
	}
	if d := hx.Snap(p).Diff(hx.Snap(p2)); d != "" {
		return hx.Failf("C16/fen-roundtrip/"+hx.Snap(p).DiffField(hx.Snap(p2)), "input %q -> %q -> differs: %s", in, out, d)
	}
	// every legal position's FEN round-trips exactly
	if legalRef && out != ref.FEN() {
		return hx.Failf("C16/fen-roundtrip/legal-position-text", "legal position %q prints as %q, want %q", in, out, ref.FEN())
	}
	// (iii) the engine's own generators and predicates run on it
	if f := hx.Guard("C16/fen-accepted", func() *hx.Failure { return exerciseAccepted(p) }); f != nil {
		if strings.HasPrefix(f.Sig, "C04/sums/") {
			f.Sig = "C16/fen-accepted-then-corrupt/" + strings.TrimPrefix(f.Sig, "C04/sums/")
			f.Msg = fmt.Sprintf("NewPositionFen(%q) accepted (as %q) but the engine's own moves corrupt it: %s", in, out, f.Msg)
			return f
		}
		f.Sig = "C16/fen-accepted-then-panic/" + cls + "/" + strings.TrimPrefix(f.Sig, "C16/fen-accepted/panic/")
		f.Msg = fmt.Sprintf("NewPositionFen(%q) accepted (as %q) but using the position panics: %s", in, out, f.Msg)
		return f
	}
	return nil
}

var fenAlphabet = []string{"p", "n", "b", "r", "q", "k", "P", "N", "B", "R", "Q", "K", "/", "1", "2", "3", "4", "5", "6", "7", "8", "9", "0", " ", "w", "b", "-", "KQkq", "e3", "e6", "a6", "h3", "e1", "x", "é", "-1", "99999999999999999999"}

// mutateFen applies a drawn structural mutation to a valid FEN.
func mutateFen(t *rapid.T, fen string) string { return mutateFenKind(t, fen, -1) }

// mutateFenKind applies mutation kind (or a drawn one when kind < 0).
func mutateFenKind(t *rapid.T, fen string, kind int) string {
	f := strings.Fields(fen)
	ranks := strings.Split(f[0], "/")
	pick := func(n int, l string) int { return rapid.IntRange(0, n-1).Draw(t, l) }
	if kind < 0 {
		kind = rapid.IntRange(0, 20).Draw(t, "mutation")
	}
	switch kind {
	case 0: // truncate anywhere
		return fen[:pick(len(fen)+1, "cut")]
	case 1: // over-long rank: extra piece
		i := pick(8, "rank")
		ranks[i] += rapid.SampledFrom([]string{"r", "P", "k", "1", "8"}).Draw(t, "extra")
	case 2: // digit past the edge
		i := pick(8, "rank")
		ranks[i] = rapid.SampledFrom([]string{"9", "81", "18", "45", "p8", "7pp", "44p"}).Draw(t, "digits")
	case 3: // extra rank / missing rank
		if rapid.Bool().Draw(t, "add") {
			ranks = append(ranks, rapid.SampledFrom([]string{"8", "pppppppp", "", "4k3"}).Draw(t, "newrank"))
		} else {
			ranks = ranks[:len(ranks)-1-pick(3, "drop")]
		}
	case 4: // remove / duplicate a king
		i := pick(8, "rank")
		if rapid.Bool().Draw(t, "rm") {
			ranks[i] = strings.NewReplacer("K", "1", "k", "1").Replace(ranks[i])
		} else {
			ranks[i] = strings.Replace(ranks[i], "1", rapid.SampledFrom([]string{"K", "k"}).Draw(t, "king"), 1)
		}
	case 5: // bad side field
		f[1] = rapid.SampledFrom([]string{"x", "W", "wb", "", "-", "0"}).Draw(t, "side")
	case 6: // bad castling field
		if len(f) > 2 {
			f[2] = rapid.SampledFrom([]string{"KQkqK", "qkQK", "X", "KK", "kq-", "AHah", "0"}).Draw(t, "castle")
		}
	case 7: // ep on any square / garbage
		if len(f) > 3 {
			f[3] = rapid.SampledFrom([]string{"e1", "e8", "a1", "h8", "e4", "e5", "a3", "h3", "a6", "h6", "e3", "e6", "i3", "e9", "e", "33", "--"}).Draw(t, "ep")
		}
	case 8: // numbers
		if len(f) > 4 {
			f[4] = rapid.SampledFrom([]string{"-1", "100", "99999999999999999999", "x", "1.5", "0x10", "+3", "007", "2147483647", "4294967296", "4611686018427387904", "9223372036854775807", "9223372036854775806"}).Draw(t, "half")
		}
	case 9:
		if len(f) > 5 {
			f[5] = rapid.SampledFrom([]string{"-1", "0", "99999999999999999999", "x", "1e3", "2147483647", "4294967296", "4611686018427387903", "4611686018427387904", "4611686018427387905", "9223372036854775807", "1073741824", "1073741825"}).Draw(t, "full")
		}
	case 10: // drop trailing fields
		f = f[:1+pick(len(f), "keep")]
	case 11: // unicode / odd characters inside the placement
		i := pick(8, "rank")
		ranks[i] = strings.Replace(ranks[i], ranks[i][:1], rapid.SampledFrom([]string{"é", "♔", "x", "O", "o", "\t", "\x00", "-"}).Draw(t, "odd"), 1)
	case 12: // extra whitespace / separators
		return strings.Join(f, rapid.SampledFrom([]string{"  ", "\t", " \t "}).Draw(t, "sep"))
	case 13: // extra slashes
		return strings.Replace(fen, "/", "//", 1+pick(2, "n"))
	case 14: // pawns on back ranks
		ranks[0] = strings.Replace(ranks[0], "1", "P", 1)
		ranks[7] = strings.Replace(ranks[7], "1", "p", 1)
	case 15: // zero digit
		i := pick(8, "rank")
		ranks[i] = "0" + ranks[i]
	case 16: // random token soup
		n := rapid.IntRange(1, 30).Draw(t, "n")
		var sb strings.Builder
		for i := 0; i < n; i++ {
			sb.WriteString(fenAlphabet[pick(len(fenAlphabet), "tok")])
		}
		return sb.String()
	case 17: // ep field added to a FEN whose position does not support it (side/pawn mismatch)
		if len(f) > 3 {
			f[3] = rc.SqName(rc.Sq(pick(8, "file"), rapid.SampledFrom([]int{2, 5}).Draw(t, "rank")))
		}
	case 18: // the other side to move (text stays valid FEN; the side that has just moved may be in check)
		if len(f) > 1 {
			if f[1] == "w" {
				f[1] = "b"
			} else {
				f[1] = "w"
			}
			if len(f) > 3 {
				f[3] = "-"
			}
		}
	case 19: // an additional piece on an empty square (may attack the king of the side not to move)
		i := pick(8, "rank")
		if k := strings.IndexAny(ranks[i], "12345678"); k >= 0 {
			d := int(ranks[i][k] - '0')
			pc := rapid.SampledFrom([]string{"Q", "q", "R", "r", "B", "b", "N", "n", "P", "p"}).Draw(t, "piece")
			rest := ""
			if d > 1 {
				rest = strconv.Itoa(d - 1)
			}
			ranks[i] = ranks[i][:k] + pc + rest + ranks[i][k+1:]
		}
	case 20: // castling rights the placement does not support
		if len(f) > 2 {
			f[2] = rapid.SampledFrom([]string{"KQkq", "K", "Q", "k", "q", "Kq", "Qk"}).Draw(t, "rights")
		}
	}
	f[0] = strings.Join(ranks, "/")
	return strings.Join(f, " ")
}

func TestC16(t *testing.T) {
	r := hx.NewRec(t, "C16")
	defer r.Finish()
	r.Assume("well-formed = board, bitboards, king squares and totals mutually consistent, exactly one king per side, FEN output re-parses to an identical position, and the engine's own generators/predicates run on it without panicking")

	// a crasher found by the native fuzzer (thorough tier) is turned into a replayable violation here
	if ff := os.Getenv("VERIF_FUZZFILE"); ff != "" {
		b, err := hx.ParseFuzzFile(ff)
		if err != nil {
			t.Fatalf("INFRA: %v", err)
		}
		if os.Getenv("VERIF_FUZZTARGET") == "FuzzC16Uci" {
			c, _ := fuzzUciCase(string(b))
			hx.Enum(r, "uci-fuzz-crasher", false, func(yield func(uciLinesCase) bool) { yield(c) }, propC16Uci)
			return
		}
		hx.Enum(r, "fen-fuzz-crasher", false, func(yield func(fenCase) bool) { yield(fenCase{Input: string(b)}) }, propC16Fen)
		return
	}
	// saved failing inputs, kept as regression cases
	hx.Enum(r, "fen-regressions", false, func(yield func(fenCase) bool) {
		for _, f := range []string{"4k3/8/8/8/8/8/8/4K3 w - - 0 4611686018427387904", "4k3/8/8/8/8/8/8/4K3 b - - 0 9223372036854775807", "4k3/8/8/8/8/8/8/4K3 w - - 9223372036854775807 1",
			"4k3/8/8/8/8/8/8/4K3 w - - 4611686018427387904 4611686018427387903", "4k3/8/8/8/8/8/8/4K3 | - - 0 1", "4k3/8/8/8/8/8/8/4K3 w - - 0 1073741824", "4k3/8/8/8/8/8/8/4K3 b - - 1073741824 1073741824"} {
			if !yield(fenCase{Input: f}) {
				return
			}
		}
	}, propC16Fen)
	hx.Sub(r, "fen-mutated", r.N(30000, 300000), func(t *rapid.T) fenCase {
		p := hx.GenPosition(t)
		fen := p.FEN()
		// text-valid but possibly illegal positions on sparse boards (empty back ranks: castling paths are free,
		// kings are exposed): other side to move / an additional piece / unsupported castling rights
		if rapid.IntRange(0, 3).Draw(t, "sparseIllegal") == 0 {
			q := hx.GenConstructed(t, rapid.IntRange(2, 8).Draw(t, "pieces"))
			fen = q.FEN()
			for i := rapid.IntRange(1, 2).Draw(t, "nvalid"); i > 0; i-- {
				fen = mutateFenKind(t, fen, rapid.IntRange(18, 20).Draw(t, "validKind"))
			}
			return fenCase{Input: fen}
		}
		n := rapid.IntRange(1, 2).Draw(t, "nmut")
		for i := 0; i < n; i++ {
			fen = mutateFen(t, fen)
			// a second mutation only while the text still has the full 6-field / 8-rank shape
			if ff := strings.Fields(fen); len(ff) != 6 || strings.Count(ff[0], "/") != 7 {
				break
			}
			bad := false
			for _, rk := range strings.Split(strings.Fields(fen)[0], "/") {
				bad = bad || len(rk) == 0
			}
			if bad {
				break
			}
		}
		return fenCase{Input: fen}
	}, propC16Fen)

	defer func() {
		r.Inflight(true)
		runC16Uci(r)
	}()
	hx.Sub(r, "fen-legal", r.N(8000, 80000), func(t *rapid.T) fenCase {
		p := hx.GenPosition(t)
		// also the short forms
		switch rapid.IntRange(0, 3).Draw(t, "form") {
		case 0:
			return fenCase{Input: p.FEN()}
		case 1:
			return fenCase{Input: p.FEN4()}
		case 2:
			return fenCase{Input: fmt.Sprintf("%s %d", p.FEN4(), p.Half)}
		default:
			return fenCase{Input: "  " + p.FEN() + "  "}
		}
	}, propC16Fen)
}

// FuzzC16Fen is the coverage-guided variant (thorough tier, native go fuzzing).
func FuzzC16Fen(f *testing.F) {
	for _, s := range hx.SeedFENs[:40] {
		f.Add(s)
	}
	for _, s := range []string{"rnbqkbnrr/pppppppp/8/8/8/8/PPPPPPPP/RNBQKBNR w KQkq - 0 1", "9/8/8/8/8/8/8/8 w", "8/8/8/8/8/8/8/8/8 w - -", "4k3/8/8/8/8/8/8/4K3 w - e1 0 1", "k7/8/8/8/8/8/8/8 w - - 0 1", "", " ", "/", "8/b7/6P1/6R1/2K5/8/P7/R3kn2", "4k3/8/8/8/8/8/8/4RK2 w - - 0 1", "8/8/8/8/8/8/8/K1k5 b - - -1 -1",
		"4k3/8/8/8/8/8/8/4K3 w - - 0 4611686018427387904", "4k3/8/8/8/8/8/8/4K3 b - - 0 9223372036854775807", "4k3/8/8/8/8/8/8/4K3 w - - 9223372036854775807 1"} {
		f.Add(s)
	}
	f.Fuzz(func(t *testing.T, s string) {
		if len(s) > 200 {
			return
		}
		o := &hx.Obs{}
		if fail := hx.Guard("C16/fen", func() *hx.Failure { return propC16Fen(fenCase{Input: s}, o) }); fail != nil {
			t.Fatalf("%s\n%s", fail.Sig, fail.Msg)
		}
	})
}
