package props

import (
	"testing"

	"github.com/frankkopp/FrankyGo/verifharness/hx"
	rc "github.com/frankkopp/FrankyGo/verifharness/refchess"
	"pgregory.net/rapid"
)

// Coverage-guided variants (thorough tier) of rapid properties whose cases are cheap and pure: the native
// fuzzer mutates the bit stream the rapid generators draw from.  The driver converts a crasher back into a
// replayable case through hx.FuzzCrasher in the property's Test function.

func genFuzzC03(t *rapid.T) undoCase { return genUndoCase(t, 120, 80) }

func genFuzzC08(t *rapid.T) c08Case { return genC08(t, 6) }

func genFuzzC10(t *rapid.T) hx.Playout {
	var p rc.Pos
	switch rapid.IntRange(0, 2).Draw(t, "src") {
	case 0:
		p = hx.GenConstructed(t, 4)
	case 1:
		p = rc.MustParse(rapid.SampledFrom([]string{"r3k2r/8/8/8/8/8/8/R3K2R w KQkq - 0 1", "r3k2r/p6p/8/8/8/8/P6P/R3K2R b KQkq - 0 1", "4k2r/8/8/8/8/8/8/R3K3 w Qk - 0 1"}).Draw(t, "castleSeed"))
	default:
		p = rc.MustParse(hx.GenSeedFEN(t))
	}
	if p.EP < 0 {
		p.Half = rapid.IntRange(0, 60).Draw(t, "half")
	}
	return hx.GenPlayoutFrom(t, p, 120, 2)
}

func genFuzzC11(t *rapid.T) ttCase { return genTTCase(t, 60, []int{0, 1, 1, 1, 2, 3}) }

func genFuzzC17(t *rapid.T) notationCase {
	if rapid.Bool().Draw(t, "disambig") {
		p := genDisambig(t)
		return notationCase{Fen: p.FEN()}
	}
	p := hx.GenPosition(t)
	return notationCase{Fen: p.FEN()}
}

func FuzzC03(f *testing.F) { hx.Fuzz(f, "C03", nil, genFuzzC03, propC03) }
func FuzzC08(f *testing.F) { hx.Fuzz(f, "C08", nil, genFuzzC08, propC08) }
func FuzzC10(f *testing.F) { hx.Fuzz(f, "C10", nil, genFuzzC10, propC10History) }
func FuzzC11(f *testing.F) { hx.Fuzz(f, "C11", &recC11, genFuzzC11, propC11) }
func FuzzC17(f *testing.F) { hx.Fuzz(f, "C17", nil, genFuzzC17, propC17Notation) }
