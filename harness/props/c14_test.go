package props

import (
	"fmt"
	"runtime"
	"sync"
	"sync/atomic"
	"testing"
	"time"

	"github.com/frankkopp/FrankyGo/internal/config"
	"github.com/frankkopp/FrankyGo/internal/search"
	"github.com/frankkopp/FrankyGo/internal/types"
	"github.com/frankkopp/FrankyGo/verifharness/hx"
	rc "github.com/frankkopp/FrankyGo/verifharness/refchess"
	"pgregory.net/rapid"
)

// ---------------------------------------------------------------------------
// C14 — search lifecycle: race-free, deadlock-free, isolated searches.
// The race detector is the monitor for the "no data race" clause (driver runs this
// test in a -race build and turns every report into a signature).
// ---------------------------------------------------------------------------

type lcOp struct {
	Op      string     `json:"op"` // start stop wait issearching ponderhit newgame clearhash resize isready sleep
	Pos     int        `json:"pos,omitempty"`
	Limits  hx.LimSpec `json:"limits,omitempty"`
	DelayMs int        `json:"delay_ms,omitempty"`
	SleepMs int        `json:"sleep_ms,omitempty"`
}

type lcCase struct {
	Ops        []lcOp         `json:"calls"`
	GoMaxProcs int            `json:"gomaxprocs"`
	HookDelays map[string]int `json:"hook_delays_us,omitempty"` // lifecycle point -> microseconds
}

// positions with pairwise different sets of legal (from,to) moves so that a result can be
// attributed to the search it belongs to
var lcPositions = []string{
	rc.StartFEN,
	"rnbqkbnr/pppppppp/8/8/4P3/8/PPPP1PPP/RNBQKBNR b KQkq e3 0 1",
	"8/8/8/8/8/2k5/8/K6R w - - 0 1",
	"r6k/8/5K2/8/8/8/8/8 b - - 0 1",
}

var hookDelays atomic.Pointer[map[string]int]
var hookOnce sync.Once

func installLifecycleHook() {
	hookOnce.Do(func() {
		search.VerifPoint = func(name string) {
			if m := hookDelays.Load(); m != nil {
				if us, ok := (*m)[name]; ok && us > 0 {
					time.Sleep(time.Duration(us) * time.Microsecond)
				}
			}
		}
	})
}

// callWithWatchdog runs f and reports whether it returned in time.
func callWithWatchdog(f func(), d time.Duration) bool {
	done := make(chan struct{})
	go func() { f(); close(done) }()
	select {
	case <-done:
		return true
	case <-time.After(d):
		return false
	}
}

type lcSearch struct {
	pos       int
	limits    hx.LimSpec
	started   time.Time
	stopAt    time.Time // controller stop request while it may have been running
	hitAt     time.Time
	definite  bool // certainly accepted (IsSearching() was false right before)
	rejected  bool // certainly rejected (an infinite search was running)
	disturbed bool // stop / newgame issued while it could be running
}

func propC14(c lcCase, o *hx.Obs) *hx.Failure {
	save := config.Settings
	defer func() { config.Settings = save }()
	old := runtime.GOMAXPROCS(c.GoMaxProcs)
	defer runtime.GOMAXPROCS(old)
	// the hook function is installed once for the process (a per-case assignment would itself race
	// with engine goroutines of the previous case); the delay table is swapped atomically
	installLifecycleHook()
	delays := c.HookDelays
	if delays == nil {
		delays = map[string]int{}
	}
	hookDelays.Store(&delays)
	defer func() {
		empty := map[string]int{}
		hookDelays.Store(&empty)
		// let timer goroutines (5 ms poll) of this case end before the next case creates a new Search
		// (NewSearch re-configures the process-wide logger, which a leftover timer would still use)
		time.Sleep(30 * time.Millisecond)
	}()
	s := search.NewSearch()
	d := &hx.Driver{}
	s.SetUciHandler(d)
	const watchdog = 10 * time.Second
	hung := func(what string, i int) *hx.Failure {
		hx.Die("C14/hang/"+what, fmt.Sprintf("call %d (%s) did not return within %v; history %+v", i, what, watchdog, c.Ops[:i+1]))
		return nil
	}
	var searches []lcSearch
	var mu sync.Mutex
	infiniteRunning := func() bool { // an accepted infinite/ponder search without stop cannot have ended
		n, _ := resultsCount(d)
		mu.Lock()
		defer mu.Unlock()
		acc := 0
		var last *lcSearch
		for i := range searches {
			if !searches[i].rejected {
				acc++
				last = &searches[i]
			}
		}
		// (a ponder search that got its ponderhit ends by its timer: not "running forever")
		return last != nil && n < acc && !last.limits.SelfTerminating() && last.stopAt.IsZero() && last.hitAt.IsZero() && last.definite
	}
	startWhileRunning, quickRestart, ponderhits, stopWithTimer := false, false, false, false
	// true while a search that does not end by itself may be running (sound for "may": set on every
	// start that is not certainly rejected, cleared by stop / newgame, which wait for the end)
	mayRunForever := false
	resultThenStart := false
	for i, op := range c.Ops {
		if op.DelayMs > 0 {
			time.Sleep(time.Duration(op.DelayMs) * time.Millisecond)
		}
		switch op.Op {
		case "start":
			rp := rc.MustParse(lcPositions[op.Pos%len(lcPositions)])
			ep := hx.NewPos(lcPositions[op.Pos%len(lcPositions)])
			rec := lcSearch{pos: op.Pos % len(lcPositions), limits: op.Limits}
			rec.rejected = infiniteRunning()
			var isS bool
			if !callWithWatchdog(func() { isS = s.IsSearching() }, watchdog) {
				return hung("IsSearching", i)
			}
			rec.definite = !isS
			// every search accepted so far has delivered its result: from the controller's view nothing is
			// running any more, so this start has to be accepted whatever IsSearching() says
			if nres, _ := resultsCount(d); !rec.definite && !rec.rejected {
				mu.Lock()
				amb, acc := false, 0
				for _, q := range searches {
					if q.rejected {
						continue
					}
					acc++
					amb = amb || !q.definite
				}
				mu.Unlock()
				if !amb && nres == acc {
					rec.definite = true
					resultThenStart = true
				}
			}
			if _, rs, _ := d.Snapshot(); len(rs) > 0 && time.Since(rs[len(rs)-1].At) < 5*time.Millisecond {
				quickRestart = true
			}
			if rec.rejected {
				startWhileRunning = true
			}
			sl := op.Limits.Limits(&rp)
			rec.started = time.Now()
			if !callWithWatchdog(func() { s.StartSearch(*ep, sl) }, watchdog) {
				what := "StartSearch"
				if rec.rejected || isS {
					what = "StartSearch-while-running"
				}
				return hung(what, i)
			}
			if !rec.rejected && (!op.Limits.SelfTerminating() || op.Limits.Mode == "ponder") {
				mayRunForever = true
			}
			mu.Lock()
			searches = append(searches, rec)
			mu.Unlock()
		case "stop":
			mu.Lock()
			if n := len(searches); n > 0 {
				for k := n - 1; k >= 0; k-- {
					if searches[k].stopAt.IsZero() {
						searches[k].stopAt = time.Now()
					}
					searches[k].disturbed = true
					if searches[k].limits.MoveTime > 0 || searches[k].limits.WTime > 0 {
						stopWithTimer = true
					}
				}
			}
			mu.Unlock()
			if !callWithWatchdog(s.StopSearch, watchdog) {
				return hung("StopSearch", i)
			}
			mayRunForever = false
		case "wait":
			if infiniteRunning() || mayRunForever {
				continue // the protocol loop never waits on an infinite search
			}
			mu.Lock()
			self := true
			if n := len(searches); n > 0 {
				l := searches[n-1]
				self = l.limits.SelfTerminating() || !l.stopAt.IsZero() || l.rejected
				if l.limits.Mode == "ponder" && l.hitAt.IsZero() && l.stopAt.IsZero() {
					self = false
				}
			}
			mu.Unlock()
			if !self {
				continue
			}
			if !callWithWatchdog(s.WaitWhileSearching, 30*time.Second) {
				return hung("WaitWhileSearching", i)
			}
		case "issearching":
			if !callWithWatchdog(func() { s.IsSearching() }, watchdog) {
				return hung("IsSearching", i)
			}
		case "ponderhit":
			mu.Lock()
			// the ponderhit belongs to the search that may be running: the last start that was not certainly rejected
			for k := len(searches) - 1; k >= 0; k-- {
				if searches[k].rejected {
					continue
				}
				if searches[k].limits.Mode == "ponder" && searches[k].hitAt.IsZero() {
					searches[k].hitAt = time.Now()
					ponderhits = true
				}
				break
			}
			mu.Unlock()
			if !callWithWatchdog(s.PonderHit, watchdog) {
				return hung("PonderHit", i)
			}
		case "newgame":
			mu.Lock()
			for k := range searches {
				if searches[k].stopAt.IsZero() {
					searches[k].stopAt = time.Now()
				}
				searches[k].disturbed = true
			}
			mu.Unlock()
			if !callWithWatchdog(s.NewGame, watchdog) {
				return hung("NewGame", i)
			}
			mayRunForever = false
		case "clearhash":
			if !callWithWatchdog(s.ClearHash, watchdog) {
				return hung("ClearHash", i)
			}
		case "resize":
			config.Settings.Search.TTSize = 1 + op.Pos%3
			if !callWithWatchdog(s.ResizeCache, watchdog) {
				return hung("ResizeCache", i)
			}
		case "isready":
			if !callWithWatchdog(s.IsReady, watchdog) {
				return hung("IsReady", i)
			}
		case "sleep":
			time.Sleep(time.Duration(op.SleepMs) * time.Millisecond)
		}
	}
	// a search that ends by itself is left alone (so that "nobody stopped it" stays true)
	if !infiniteRunning() && !mayRunForever {
		mu.Lock()
		self := true
		if n := len(searches); n > 0 {
			l := searches[n-1]
			self = l.limits.SelfTerminating() || !l.stopAt.IsZero() || l.rejected
			if l.limits.Mode == "ponder" && l.hitAt.IsZero() && l.stopAt.IsZero() {
				self = false
			}
		}
		mu.Unlock()
		if self && !callWithWatchdog(s.WaitWhileSearching, 30*time.Second) {
			return hung("WaitWhileSearching", len(c.Ops))
		}
	}
	// wind down: every search ends after a stop
	mu.Lock()
	for k := range searches {
		if searches[k].stopAt.IsZero() && !searches[k].limits.SelfTerminating() {
			searches[k].stopAt = time.Now()
		}
	}
	mu.Unlock()
	// searches whose result is not out yet are stopped by this final stop (a depth-limited search after a
	// ponder search with ponderhit is not waited for above): they are not "undisturbed"
	if n, _ := resultsCount(d); true {
		mu.Lock()
		acc := 0
		for k := range searches {
			if searches[k].rejected {
				continue
			}
			if acc >= n {
				searches[k].disturbed = true
			}
			acc++
		}
		mu.Unlock()
	}
	finalStop := time.Now()
	if !callWithWatchdog(s.StopSearch, watchdog) {
		return hung("StopSearch", len(c.Ops))
	}
	time.Sleep(20 * time.Millisecond)
	o.Evals(len(c.Ops))

	_, results, _ := d.Snapshot()
	minAcc, maxAcc := 0, 0
	for _, sr := range searches {
		switch {
		case sr.rejected:
		case sr.definite:
			minAcc++
			maxAcc++
		default:
			maxAcc++
		}
	}
	if len(results) < minAcc || len(results) > maxAcc {
		return hx.Failf("C14/results/count", "%d results delivered, accepted searches between %d and %d; history %+v", len(results), minAcc, maxAcc, c.Ops)
	}
	// attribute results when the accepted set is unambiguous
	if minAcc == maxAcc {
		k := 0
		for _, sr := range searches {
			if sr.rejected {
				continue
			}
			res := results[k]
			prevAt := time.Time{}
			if k > 0 {
				prevAt = results[k-1].At
			}
			k++
			rp := rc.MustParse(lcPositions[sr.pos])
			bm := hx.FromEngine(res.Best)
			if lm, ok := rp.FindUCI(bm.UCI(true)); res.Best == types.MoveNone || !ok || lm != bm {
				return hx.Failf("C14/results/foreign-result", "result %d (%s) is not a legal move of the position of search %d (%s); history %+v", k, res.Best.StringUci(), k, lcPositions[sr.pos], c.Ops)
			}
			if res.At.Before(sr.started) {
				return hx.Failf("C14/results/before-start", "result %d delivered before its search was started", k)
			}
			// infinite / ponder: never before stop (or ponderhit + time-out)
			if !sr.limits.SelfTerminating() || sr.limits.Mode == "ponder" {
				stopAt := sr.stopAt
				if stopAt.IsZero() {
					stopAt = finalStop
				}
				if sr.limits.Mode == "ponder" && !sr.hitAt.IsZero() && sr.hitAt.Before(stopAt) {
					stopAt = sr.hitAt
				}
				if res.At.Before(stopAt) {
					return hx.Failf("C14/results/premature-"+sr.limits.Mode, "search %d (%s) delivered its result %v before stop/ponderhit; history %+v", k, sr.limits.Mode, stopAt.Sub(res.At), c.Ops)
				}
			}
			// an undisturbed depth-limited search completes all its iterations
			if sr.limits.Mode == "depth" && !sr.disturbed && sr.definite {
				maxd := depthReached(d, prevAt, res.At)
				if maxd != sr.limits.Depth {
					return hx.Failf("C14/results/ended-early-depth", "search %d (go depth %d) reported iterations up to %d although nobody stopped it (leftover of an earlier search?); history %+v", k, sr.limits.Depth, maxd, c.Ops)
				}
			}
		}
	}
	if startWhileRunning {
		o.Label("start-while-running")
	}
	if resultThenStart {
		o.Label("start-after-result-while-IsSearching-still-true")
	}
	if quickRestart {
		o.Label("start-within-5ms-of-previous-result")
	}
	if ponderhits {
		o.Label("ponderhit")
	}
	if stopWithTimer {
		o.Label("stop-while-timer-active")
	}
	o.Label(fmt.Sprintf("gomaxprocs-%d", c.GoMaxProcs))
	if startWhileRunning || quickRestart || ponderhits || stopWithTimer {
		o.NT("")
	}
	return nil
}

// countBefore: number of searches before index i (helper: the ponder search is the only candidate to
// be running when every earlier search was certainly over, i.e. it was started with IsSearching()==false)
func countBefore(ss []lcSearch, i int) int { return i }

func resultsCount(d *hx.Driver) (int, time.Time) {
	_, rs, _ := d.Snapshot()
	if len(rs) == 0 {
		return 0, time.Time{}
	}
	return len(rs), rs[len(rs)-1].At
}

// depthReached: the deepest iteration reported between two result deliveries.
func depthReached(d *hx.Driver, after, before time.Time) int {
	its := d.ItersBetween(after, before)
	m := 0
	for _, it := range its {
		if it.Depth > m {
			m = it.Depth
		}
	}
	return m
}

func genLcCase(t *rapid.T, maxOps int) lcCase {
	c := lcCase{GoMaxProcs: rapid.SampledFrom([]int{1, 2, 4, 16}).Draw(t, "procs")}
	if rapid.Bool().Draw(t, "hooks") {
		c.HookDelays = map[string]int{}
		for _, p := range []string{"start.pre", "run.begin", "timer.tick", "timer.fire", "run.end", "result.sent"} {
			if rapid.IntRange(0, 2).Draw(t, "d:"+p) == 0 {
				c.HookDelays[p] = rapid.IntRange(0, 6000).Draw(t, "us:"+p)
			}
		}
	}
	n := rapid.IntRange(2, maxOps).Draw(t, "ops")
	for i := 0; i < n; i++ {
		op := lcOp{Op: rapid.SampledFrom([]string{"start", "start", "start", "start", "stop", "stop", "wait", "wait", "issearching", "ponderhit", "newgame", "clearhash", "resize", "isready", "sleep"}).Draw(t, "op")}
		op.DelayMs = rapid.SampledFrom([]int{0, 0, 0, 0, 1, 2, 5, 10}).Draw(t, "delay")
		switch op.Op {
		case "start":
			op.Pos = rapid.IntRange(0, len(lcPositions)-1).Draw(t, "pos")
			op.Limits = hx.GenLimits(t, 5)
			op.Limits.StopAfterMs, op.Limits.PonderHitAfterMs = -1, -1
			if op.Limits.Mode == "ponder" {
				op.Limits.PonderHitAfterMs = -1
			}
		case "sleep":
			op.SleepMs = rapid.IntRange(0, 25).Draw(t, "ms")
		case "resize":
			op.Pos = rapid.IntRange(0, 2).Draw(t, "size")
		}
		c.Ops = append(c.Ops, op)
	}
	return c
}

func TestC14(t *testing.T) {
	r := hx.NewRec(t, "C14")
	defer r.Finish()
	r.Inflight(true)
	r.Assume("one controller goroutine drives the interface (as the protocol loop does); WaitWhileSearching is only called when the running search ends by itself or was stopped")
	r.Assume("deadlock / hang = a lifecycle call that does not return within 10 s (30 s for WaitWhileSearching); data races are detected by the Go race detector in the -race build of this test (driver), reported per unordered pair of innermost engine functions")
	r.Assume("scheduling is perturbed by GOMAXPROCS in {1,2,4,16}, generated delays 0-10 ms between calls and 0-6 ms at five hooked lifecycle points; it is not controlled")

	div := 1
	if r.Race() {
		div = 3
	}
	hx.Sub(r, "histories", r.N(120, 1500)/div, func(t *rapid.T) lcCase { return genLcCase(t, 12) }, propC14)

	// the two windows named in the property, densely
	hx.Sub(r, "restart-window", r.N(60, 800)/div, func(t *rapid.T) lcCase {
		c := lcCase{GoMaxProcs: rapid.SampledFrom([]int{1, 2, 4, 16}).Draw(t, "procs")}
		first := hx.LimSpec{Mode: rapid.SampledFrom([]string{"movetime", "clock"}).Draw(t, "mode"), StopAfterMs: -1, PonderHitAfterMs: -1}
		if first.Mode == "movetime" {
			first.MoveTime = rapid.IntRange(5, 40).Draw(t, "mt")
		} else {
			first.WTime, first.BTime = 200, 200
		}
		second := hx.LimSpec{Mode: rapid.SampledFrom([]string{"infinite", "depth"}).Draw(t, "mode2"), Depth: 5, StopAfterMs: -1, PonderHitAfterMs: -1}
		c.Ops = []lcOp{{Op: "start", Pos: 0, Limits: first}}
		if rapid.Bool().Draw(t, "stopFirst") {
			c.Ops = append(c.Ops, lcOp{Op: "stop", DelayMs: rapid.IntRange(0, 8).Draw(t, "d1")})
		} else {
			c.Ops = append(c.Ops, lcOp{Op: "wait"})
		}
		c.Ops = append(c.Ops, lcOp{Op: "start", Pos: 1, Limits: second, DelayMs: rapid.SampledFrom([]int{0, 0, 1, 2, 4}).Draw(t, "gap")})
		if second.Mode == "infinite" {
			c.Ops = append(c.Ops, lcOp{Op: "sleep", SleepMs: rapid.IntRange(10, 40).Draw(t, "hold")}, lcOp{Op: "stop"})
		} else {
			c.Ops = append(c.Ops, lcOp{Op: "wait"})
		}
		return c
	}, propC14)
	// a game with pondering: ponder searches ended by ponderhit (+ their timer) or by stop, followed by a
	// search that finishes its iterations by itself (depth 1-2) and has to wait for its stop
	hx.Sub(r, "pondering-game", r.N(40, 500)/div, func(t *rapid.T) lcCase {
		c := lcCase{GoMaxProcs: rapid.SampledFrom([]int{1, 2, 4, 16}).Draw(t, "procs")}
		for i := rapid.IntRange(1, 3).Draw(t, "ponders"); i > 0; i-- {
			mt := rapid.IntRange(15, 40).Draw(t, "mt")
			c.Ops = append(c.Ops, lcOp{Op: "start", Pos: rapid.IntRange(0, len(lcPositions)-1).Draw(t, "pos"), Limits: hx.LimSpec{Mode: "ponder", MoveTime: mt, StopAfterMs: -1, PonderHitAfterMs: -1}},
				lcOp{Op: "sleep", SleepMs: rapid.IntRange(2, 10).Draw(t, "think")})
			if rapid.IntRange(0, 3).Draw(t, "hit") != 0 {
				c.Ops = append(c.Ops, lcOp{Op: "ponderhit"}, lcOp{Op: "sleep", SleepMs: mt + 15})
			}
			c.Ops = append(c.Ops, lcOp{Op: "stop"})
			if rapid.IntRange(0, 2).Draw(t, "between") == 0 {
				c.Ops = append(c.Ops, lcOp{Op: "start", Pos: rapid.IntRange(0, len(lcPositions)-1).Draw(t, "pos2"), Limits: hx.LimSpec{Mode: "depth", Depth: rapid.IntRange(1, 3).Draw(t, "d"), StopAfterMs: -1, PonderHitAfterMs: -1}}, lcOp{Op: "wait"})
			}
		}
		last := hx.LimSpec{Mode: rapid.SampledFrom([]string{"infinite", "ponder"}).Draw(t, "lastMode"), Depth: rapid.IntRange(1, 2).Draw(t, "lastDepth"), StopAfterMs: -1, PonderHitAfterMs: -1}
		if last.Mode == "ponder" {
			last.MoveTime = 5000
		}
		c.Ops = append(c.Ops, lcOp{Op: "start", Pos: rapid.IntRange(0, len(lcPositions)-1).Draw(t, "lastPos"), Limits: last},
			lcOp{Op: "sleep", SleepMs: rapid.IntRange(30, 60).Draw(t, "hold")})
		if rapid.Bool().Draw(t, "ready") {
			c.Ops = append(c.Ops, lcOp{Op: "isready"})
		}
		c.Ops = append(c.Ops, lcOp{Op: "stop"})
		return c
	}, propC14)
	hx.Sub(r, "start-while-running", r.N(40, 500)/div, func(t *rapid.T) lcCase {
		c := lcCase{GoMaxProcs: rapid.SampledFrom([]int{1, 2, 4, 16}).Draw(t, "procs")}
		inf := hx.LimSpec{Mode: "infinite", StopAfterMs: -1, PonderHitAfterMs: -1}
		other := hx.GenLimits(t, 3)
		other.StopAfterMs, other.PonderHitAfterMs = -1, -1
		c.Ops = []lcOp{{Op: "start", Pos: 0, Limits: inf}, {Op: "start", Pos: 1, Limits: other, DelayMs: rapid.IntRange(0, 10).Draw(t, "gap")},
			{Op: "isready"}, {Op: "sleep", SleepMs: rapid.IntRange(0, 20).Draw(t, "hold")}, {Op: "stop"}}
		return c
	}, propC14)
}
