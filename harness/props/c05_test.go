package props

import (
	"fmt"
	"testing"
	"time"

	"github.com/frankkopp/FrankyGo/internal/config"
	"github.com/frankkopp/FrankyGo/internal/search"
	"github.com/frankkopp/FrankyGo/internal/types"
	"github.com/frankkopp/FrankyGo/verifharness/hx"
	rc "github.com/frankkopp/FrankyGo/verifharness/refchess"
	"pgregory.net/rapid"
)

// ---------------------------------------------------------------------------
// C05 — search terminates with a legal best move, ponder move and PVs; position untouched.
// ---------------------------------------------------------------------------

type searchStep struct {
	AfterPlies int        `json:"after_plies"`
	Limits     hx.LimSpec `json:"limits"`
}

type c05Case struct {
	Play     hx.Playout     `json:"history"`
	Settings hx.SettingsVec `json:"settings"`
	Searches []searchStep   `json:"searches"`
}

func valueClass(v types.Value) string {
	switch {
	case v.IsCheckMateValue():
		return "mate-score"
	case v == types.ValueDraw:
		return "draw-score"
	}
	return ""
}

func propC05(c c05Case, o *hx.Obs) *hx.Failure {
	save := config.Settings
	defer func() { config.Settings = save }()
	c.Settings.Apply()

	poss, moves := c.Play.Replay()
	s := search.NewSearch()
	d := &hx.Driver{}
	s.SetUciHandler(d)
	defer s.StopSearch()
	ep := hx.NewPos(c.Play.Start)
	played := 0
	nonDefault := len(c.Settings) > 0
	for si, st := range c.Searches {
		if st.AfterPlies > len(moves) {
			st.AfterPlies = len(moves)
		}
		for played < st.AfterPlies {
			ep.DoMove(hx.ToEngine(moves[played]))
			played++
		}
		root := poss[played]
		legal := root.Legal()
		if len(legal) == 0 {
			continue // terminal roots are C07's converse clause
		}
		before := hx.Snap(ep)
		ctx := fmt.Sprintf("search %d on %s (after %d plies from %s) limits %+v settings {%s}", si+1, root.FEN(), played, c.Play.Start, st.Limits, c.Settings.String())
		out := hx.RunSearch(s, d, ep, &root, st.Limits, 30*time.Second)
		o.Evals(1)
		if out.Slow {
			o.Label("slow-search-stopped-by-harness(inconclusive)")
			return nil
		}
		if out.Hung {
			// confirm in isolation is not possible inside this process (the search may still run): report
			return hx.Failf("C05/terminate/hang-"+st.Limits.Mode, "%s: search did not end within 30 s", ctx)
		}
		if d := before.Diff(hx.Snap(ep)); d != "" {
			return hx.Failf("C05/position-changed/"+before.DiffField(hx.Snap(ep)), "%s: the caller's position changed: %s", ctx, d)
		}
		res := out.Result
		rootRep := "plain-root"
		if root.Half >= 100 {
			rootRep = "root-halfmove>=100"
		} else if ep.CheckRepetitions(2) {
			rootRep = "root-repeated"
		} else if ep.CheckRepetitions(1) {
			rootRep = "root-seen-once-before"
		}
		// best move legal
		best := hx.FromEngine(res.BestMove)
		if res.BestMove == types.MoveNone {
			return hx.Failf("C05/bestmove/none/"+rootRep, "%s: best move is NoMove although %d legal moves exist", ctx, len(legal))
		}
		lm, ok := root.FindUCI(best.UCI(true))
		if !ok || lm != best {
			return hx.Failf("C05/bestmove/illegal/"+rootRep, "%s: best move %s is not legal", ctx, res.BestMove.StringUci())
		}
		after := root.Make(lm)
		if res.PonderMove != types.MoveNone {
			pm := hx.FromEngine(res.PonderMove)
			if l2, ok := after.FindUCI(pm.UCI(true)); !ok || l2 != pm {
				src := "from-pv"
				if len(res.Pv) < 2 {
					src = "from-hash"
				}
				return hx.Failf("C05/pondermove/illegal-"+src, "%s: ponder move %s is not legal after best move %s (pv %s)", ctx, res.PonderMove.StringUci(), res.BestMove.StringUci(), hx.PvString(res.Pv))
			}
		}
		// final PV playable and starting with the best move
		if len(res.Pv) == 0 || res.Pv[0].MoveOf() != res.BestMove.MoveOf() {
			return hx.Failf("C05/pv/does-not-start-with-bestmove", "%s: final pv %q, best move %s", ctx, hx.PvString(res.Pv), res.BestMove.StringUci())
		}
		if i := hx.PlayableFrom(root, res.Pv); i >= 0 {
			return hx.Failf("C05/pv/illegal-final", "%s: final pv %q: move %d (%s) is not legal there", ctx, hx.PvString(res.Pv), i+1, res.Pv[i].StringUci())
		}
		for _, it := range out.Iters {
			if i := hx.PlayableFrom(root, it.Pv); i >= 0 {
				return hx.Failf("C05/pv/illegal-iteration", "%s: pv of iteration %d %q: move %d (%s) is not legal there", ctx, it.Depth, hx.PvString(it.Pv), i+1, it.Pv[i].StringUci())
			}
		}
		// exactly one result delivered
		if len(out.Sent) != 1 {
			return hx.Failf("C05/result/count", "%s: %d results sent", ctx, len(out.Sent))
		}
		// classification
		o.Label("mode:" + st.Limits.Mode)
		o.Label(rootRep)
		if vc := valueClass(res.BestValue); vc != "" {
			o.Label(vc)
		}
		stoppedEarly := st.Limits.StopAfterMs >= 0 || st.Limits.Mode == "movetime" || st.Limits.Mode == "clock" || st.Limits.Mode == "nodes"
		ttLater := si > 0 && out.Stats.TTHit > 0
		if ttLater {
			o.Label("tt-hit-in-later-search")
		}
		if len(res.Pv) >= 2 && (ttLater || valueClass(res.BestValue) != "" || stoppedEarly || nonDefault) {
			o.NTKey(ctx)
		}
	}
	return nil
}

// genSettings draws a vector over the search switches (nil = defaults in ~1/3 of the cases).
func genSettings(t *rapid.T, names []string, pDefault int) hx.SettingsVec {
	v := hx.SettingsVec{}
	if rapid.IntRange(0, 99).Draw(t, "defaultSettings") < pDefault {
		return v
	}
	for _, n := range names {
		if rapid.IntRange(0, 2).Draw(t, "flip:"+n) == 0 {
			cur := 0
			// value opposite to the default
			switch n {
			case "UseAspiration", "UseMTDf", "UseEvalTT", "UseThreatExt":
				cur = 1
			}
			v[n] = cur
		}
	}
	if rapid.Bool().Draw(t, "params") {
		v["IIDDepth"] = rapid.SampledFrom([]int{2, 3, 6}).Draw(t, "iidDepth")
		v["IIDReduction"] = rapid.SampledFrom([]int{1, 2}).Draw(t, "iidRed")
		v["NmpDepth"] = rapid.SampledFrom([]int{2, 3}).Draw(t, "nmpDepth")
		v["LmrDepth"] = rapid.SampledFrom([]int{2, 3}).Draw(t, "lmrDepth")
		v["LmrMovesSearched"] = rapid.SampledFrom([]int{1, 3}).Draw(t, "lmrMoves")
	}
	return v
}

func genC05(t *rapid.T, maxDepth int) c05Case {
	c := c05Case{Settings: genSettings(t, hx.SearchBoolSwitches(), 35)}
	// histories: shuffle-biased so that repeated roots and high clocks occur
	var p rc.Pos
	special := func(pl hx.Playout) c05Case {
		c.Play = pl
		n := rapid.IntRange(1, 3).Draw(t, "searches")
		for i := 0; i < n; i++ {
			c.Searches = append(c.Searches, searchStep{AfterPlies: len(pl.Moves), Limits: hx.GenLimits(t, maxDepth)})
		}
		return c
	}
	switch rapid.IntRange(0, 5).Draw(t, "src") {
	case 4: // one ply before a forced reply, or the forced-reply position itself
		fc := hx.GenForced(t)
		if fc.Pred != "" && rapid.Bool().Draw(t, "fromPred") {
			return special(hx.Playout{Start: fc.Pred})
		}
		return special(hx.Playout{Start: fc.Fen})
	case 5: // shuffle history (root or tree repeats earlier positions)
		q := hx.GenStart(t, 8)
		if pl, ok := hx.GenShuffleHistory(t, q, 3); ok {
			return special(pl)
		}
		p = q
	case 0:
		p = hx.GenConstructed(t, 6)
	case 1:
		p = hx.GenConstructed(t, 14)
	default:
		p = rc.MustParse(hx.GenSeedFEN(t))
	}
	if p.EP < 0 && rapid.IntRange(0, 3).Draw(t, "highClock") == 0 {
		p.Half = rapid.IntRange(90, 110).Draw(t, "half")
	}
	c.Play = hx.GenPlayoutFrom(t, p, 30, 2)
	n := rapid.IntRange(1, 4).Draw(t, "searches")
	at := 0
	for i := 0; i < n; i++ {
		if len(c.Play.Moves) > 0 {
			at = rapid.IntRange(at, len(c.Play.Moves)).Draw(t, "at")
		}
		c.Searches = append(c.Searches, searchStep{AfterPlies: at, Limits: hx.GenLimits(t, maxDepth)})
	}
	return c
}

func TestC05(t *testing.T) {
	r := hx.NewRec(t, "C05")
	defer r.Finish()
	r.Inflight(true)
	r.Assume("roots have at least one legal move (terminal roots: C07); book off; hash 1 MB so that entries collide and age across the 1-4 searches of a case")
	r.Assume("ponder searches carry a move time (ponderhit switches to time control); infinite/ponder searches are stopped by the controller")
	hx.Sub(r, "searches", r.N(700, 6000), func(t *rapid.T) c05Case { return genC05(t, r.N(4, 6)) }, propC05)

	// searches that are stopped inside their first iterations (tiny node budgets, stop at once) on tactical
	// positions: the result then has to be assembled from an unfinished iteration
	hx.Sub(r, "stopped-early", r.N(1500, 15000), func(t *rapid.T) c05Case {
		c := c05Case{Settings: genSettings(t, hx.SearchBoolSwitches(), 70)}
		p := rc.MustParse(hx.GenSeedFEN(t))
		c.Play = hx.GenPlayoutFrom(t, p, 6, 1)
		n := rapid.IntRange(1, 3).Draw(t, "searches")
		for i := 0; i < n; i++ {
			l := hx.LimSpec{Mode: "nodes", Nodes: rapid.IntRange(1, 120).Draw(t, "nodes"), StopAfterMs: -1, PonderHitAfterMs: -1}
			if rapid.IntRange(0, 3).Draw(t, "inf") == 0 {
				l = hx.LimSpec{Mode: "infinite", StopAfterMs: 0, PonderHitAfterMs: -1}
			}
			c.Searches = append(c.Searches, searchStep{AfterPlies: len(c.Play.Moves), Limits: l})
		}
		return c
	}, propC05)
}
