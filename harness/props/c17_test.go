package props

import (
	"fmt"
	"strings"
	"testing"

	"github.com/frankkopp/FrankyGo/internal/movegen"
	"github.com/frankkopp/FrankyGo/internal/types"
	"github.com/frankkopp/FrankyGo/verifharness/hx"
	rc "github.com/frankkopp/FrankyGo/verifharness/refchess"
	"pgregory.net/rapid"
)

// ---------------------------------------------------------------------------
// C17 — move notation and move encoding round-trip losslessly.
// ---------------------------------------------------------------------------

type notationCase struct {
	Fen string `json:"fen"`
	// extra strings to try (negative cases: SAN / UCI of moves of another position)
	Extra []string `json:"extra,omitempty"`
}

func sanVariants(p *rc.Pos, m rc.Move) []string {
	vs := []string{
		p.SAN(m, rc.SANOpt{}),
		p.SAN(m, rc.SANOpt{NoCapture: true}),
		p.SAN(m, rc.SANOpt{NoCheck: true}),
		p.SAN(m, rc.SANOpt{NoCapture: true, NoCheck: true}),
		p.SAN(m, rc.SANOpt{Suffix: "!?"}),
		p.SAN(m, rc.SANOpt{Suffix: "!"}),
		p.SAN(m, rc.SANOpt{OverDisambi: 1}),
		p.SAN(m, rc.SANOpt{OverDisambi: 2}),
	}
	if m.Kind == rc.Promotion {
		vs = append(vs, p.SAN(m, rc.SANOpt{NoPromoEq: true}))
	}
	return vs
}

// stripDisambiguation removes the origin hints of a piece move's SAN ("Nbd7" -> "Nd7").
func stripDisambiguation(p *rc.Pos, m rc.Move) string {
	pc := rc.Upper(p.B[m.From])
	if pc == 'P' || m.Kind == rc.Castling {
		return ""
	}
	s := string(pc)
	if p.IsCapture(m) {
		s += "x"
	}
	return s + rc.SqName(m.To)
}

func propC17Notation(c notationCase, o *hx.Obs) *hx.Failure {
	rp := rc.MustParse(c.Fen)
	ep := hx.NewPos(c.Fen)
	mg := movegen.NewMoveGen()
	legal := rp.Legal()
	keyBefore := uint64(ep.ZobristKey())
	trySAN := func(s string, what string) *hx.Failure {
		den, ok := rp.DenoteSAN(s)
		if !ok {
			return nil // not of SAN shape: outside the statement
		}
		got := mg.GetMoveFromSan(ep, s)
		o.Evals(1)
		switch {
		case len(den) == 1:
			if got == types.MoveNone || hx.FromEngine(got) != den[0] {
				cls := "plain"
				if strings.ContainsAny(s, "=") || den[0].Kind == rc.Promotion {
					cls = "promotion"
				} else if den[0].Kind == rc.Castling {
					cls = "castling"
				} else if den[0].Kind == rc.EnPassant {
					cls = "en-passant"
				} else if len(s) >= 4 && rc.Upper(rp.B[den[0].From]) != 'P' {
					cls = "disambiguated"
				}
				return hx.Failf("C17/san/wrong-move-"+cls, "%s: GetMoveFromSan(%q) [%s] = %s, the string denotes exactly %s", c.Fen, s, what, got.StringUci(), den[0].UCI(true))
			}
		case len(den) == 0:
			if got != types.MoveNone {
				return hx.Failf("C17/san/accepts-string-denoting-no-legal-move", "%s: GetMoveFromSan(%q) [%s] = %s but no legal move is denoted", c.Fen, s, what, got.StringUci())
			}
		default:
			if got != types.MoveNone {
				return hx.Failf("C17/san/accepts-ambiguous", "%s: GetMoveFromSan(%q) [%s] = %s but the string is ambiguous (%s)", c.Fen, s, what, got.StringUci(), hx.JoinMoves(den))
			}
		}
		return nil
	}
	tryUCI := func(s string) *hx.Failure {
		var want *rc.Move
		for i := range legal {
			if strings.EqualFold(legal[i].UCI(true), s) {
				want = &legal[i]
			}
		}
		got := mg.GetMoveFromUci(ep, s)
		o.Evals(1)
		if want != nil && (got == types.MoveNone || hx.FromEngine(got) != *want) {
			return hx.Failf("C17/uci/wrong-move", "%s: GetMoveFromUci(%q) = %s, want %s", c.Fen, s, got.StringUci(), want.UCI(true))
		}
		if want == nil && got != types.MoveNone {
			return hx.Failf("C17/uci/accepts-illegal", "%s: GetMoveFromUci(%q) = %s but that is not a legal move", c.Fen, s, got.StringUci())
		}
		return nil
	}
	for _, m := range legal {
		em := hx.ToEngine(m)
		// UCI round trip of the engine's own rendering and the standard lower-case form
		for _, s := range []string{em.StringUci(), m.UCI(true)} {
			if s != m.UCI(false) && s != m.UCI(true) {
				return hx.Failf("C17/uci/rendering", "%s: StringUci() of %s is %q", c.Fen, m.UCI(true), s)
			}
			if f := tryUCI(s); f != nil {
				return f
			}
		}
		for _, s := range sanVariants(&rp, m) {
			if f := trySAN(s, "variant of "+m.UCI(true)); f != nil {
				return f
			}
		}
		if s := stripDisambiguation(&rp, m); s != "" {
			if f := trySAN(s, "disambiguation dropped from "+m.UCI(true)); f != nil {
				return f
			}
		}
		// a promotion suffix on a move that is no promotion / a promotion without its piece: SAN and UCI shaped
		// strings that denote no legal move
		plain := strings.TrimRight(rp.SAN(m, rc.SANOpt{NoCheck: true}), "+#")
		if m.Kind != rc.Promotion && m.Kind != rc.Castling {
			for _, suf := range []string{"=N", "=Q", "N", "=B", "R"} {
				if f := trySAN(plain+suf, "promotion suffix on the non-promotion move "+m.UCI(true)); f != nil {
					return f
				}
			}
			for _, suf := range []string{"n", "q", "N"} {
				if f := tryUCI(m.UCI(true) + suf); f != nil {
					return f
				}
			}
		}
		// coordinate strings with characters before or after the move denote no move
		for _, junk := range []string{m.UCI(true) + "0", m.UCI(true) + "zz", "x" + m.UCI(true), m.UCI(true) + m.UCI(true)} {
			if f := tryUCI(junk); f != nil {
				return f
			}
		}
		if m.Kind == rc.Promotion {
			if i := strings.IndexByte(plain, '='); i > 0 {
				if f := trySAN(plain[:i], "promotion piece dropped from "+m.UCI(true)); f != nil {
					return f
				}
			}
			if f := tryUCI(m.UCI(true)[:4]); f != nil {
				return f
			}
		}
		if !mg.ValidateMove(ep, em) {
			return hx.Failf("C17/validate/rejects-legal", "%s: ValidateMove(%s)=false for a legal move", c.Fen, m.UCI(true))
		}
		san := rp.SAN(m, rc.SANOpt{})
		if m.Kind != rc.Normal || (rc.Upper(rp.B[m.From]) != 'P' && len(strings.TrimRight(san, "+#")) >= 4+strings.Count(san, "x")) {
			o.NTKey(c.Fen + m.UCI(true))
			o.Label("san:" + kindName(m))
			if m.Kind == rc.Normal {
				o.Label("san:needs-disambiguation")
			}
		}
	}
	// "no move" is not a legal move
	if mg.ValidateMove(ep, types.MoveNone) {
		return hx.Failf("C17/validate/accepts-illegal", "%s: ValidateMove(MoveNone)=true", c.Fen)
	}
	// pseudo-legal but illegal moves must be rejected in every notation
	legalSet := multiset(legal)
	for _, m := range rp.PseudoLegal() {
		if legalSet[m] > 0 {
			continue
		}
		if mg.ValidateMove(ep, hx.ToEngine(m)) {
			return hx.Failf("C17/validate/accepts-illegal", "%s: ValidateMove(%s)=true for an illegal move", c.Fen, m.UCI(true))
		}
		if f := tryUCI(m.UCI(true)); f != nil {
			return f
		}
		o.NTKey(c.Fen + "illegal" + m.UCI(true))
	}
	for _, s := range c.Extra {
		if f := trySAN(s, "foreign string"); f != nil {
			return f
		}
		if len(s) >= 4 && rc.ParseSq(s[0:2]) >= 0 && rc.ParseSq(s[2:4]) >= 0 && (len(s) == 4 || (len(s) == 5 && strings.ContainsAny(s[4:], "nbrqNBRQ"))) {
			if f := tryUCI(s); f != nil {
				return f
			}
		}
		o.NTKey(c.Fen + "extra" + s)
		o.Label("negative-or-foreign-string")
	}
	if uint64(ep.ZobristKey()) != keyBefore {
		return hx.Failf("C17/parsing-changes-position", "%s: position changed by notation parsing", c.Fen)
	}
	return nil
}

// genDisambig builds positions with several equal pieces aiming at the same squares.
func genDisambig(t *rapid.T) rc.Pos {
	for try := 0; ; try++ {
		var p rc.Pos
		p.EP = -1
		p.Full = 1
		perm := rapid.Permutation(allSquares()).Draw(t, "sq")
		white := rapid.Bool().Draw(t, "side")
		p.White = white
		p.B[perm[0]] = 'K'
		k := 1
		for ; k < 64; k++ {
			df, dr := rc.FileOf(perm[k])-rc.FileOf(perm[0]), rc.RankOf(perm[k])-rc.RankOf(perm[0])
			if df < -1 || df > 1 || dr < -1 || dr > 1 {
				break
			}
		}
		p.B[perm[k]] = 'k'
		idx := k + 1
		pt := rapid.SampledFrom([]byte{'N', 'N', 'R', 'Q', 'B'}).Draw(t, "pt")
		n := rapid.IntRange(2, 4).Draw(t, "n")
		for i := 0; i < n; i++ {
			p.B[perm[idx]] = colOf(pt, white)
			idx++
		}
		for i := rapid.IntRange(0, 5).Draw(t, "others"); i > 0; i-- {
			pc := rapid.SampledFrom([]byte{'P', 'p', 'N', 'n', 'R', 'r', 'Q', 'q', 'B', 'b', 'P', 'p'}).Draw(t, "opc")
			sq := perm[idx]
			idx++
			if rc.Upper(pc) == 'P' && (rc.RankOf(sq) == 0 || rc.RankOf(sq) == 7) {
				continue
			}
			p.B[sq] = pc
		}
		if p.Validate() == nil {
			return p
		}
		p.White = !p.White
		if p.Validate() == nil {
			return p
		}
		if try > 20 {
			return rc.MustParse("4k3/8/8/8/8/2N1N3/1N3N2/4K3 w - - 0 1")
		}
	}
}

func colOf(pt byte, white bool) byte {
	if white {
		return pt
	}
	return pt + 32
}

func allSquares() []int {
	s := make([]int, 64)
	for i := range s {
		s[i] = i
	}
	return s
}

// ---- packed move encoding ---------------------------------------------------

type encCase struct {
	From   int   `json:"from"`
	Values []int `json:"values"`
}

var moveTypes = []types.MoveType{types.Normal, types.Promotion, types.EnPassant, types.Castling}
var promTypes = []types.PieceType{types.Knight, types.Bishop, types.Rook, types.Queen}

func propC17Encoding(c encCase, o *hx.Obs) *hx.Failure {
	from := types.Square(c.From)
	n := 0
	for to := types.SqA1; to <= types.SqH8; to++ {
		for _, mt := range moveTypes {
			for _, pt := range promTypes {
				m := types.CreateMove(from, to, mt, pt)
				if m.From() != from || m.To() != to || m.MoveType() != mt || m.PromotionType() != pt {
					return hx.Failf("C17/encoding/fields", "CreateMove(%s,%s,%s,%s) reads back %s %s %s %s", from.String(), to.String(), mt.String(), pt.Char(), m.From().String(), m.To().String(), m.MoveType().String(), m.PromotionType().Char())
				}
				if m.ValueOf() != types.ValueNA {
					return hx.Failf("C17/encoding/initial-value", "CreateMove(...) has value %d", m.ValueOf())
				}
				if m == types.MoveNone {
					// the single combination that encodes to MoveNone: SetValue is documented as a no-op
					continue
				}
				n++
				for _, vi := range c.Values {
					v := types.Value(vi)
					mv := types.CreateMoveValue(from, to, mt, pt, v)
					if mv.MoveOf() != m || mv.ValueOf() != v || mv.From() != from || mv.To() != to || mv.MoveType() != mt || mv.PromotionType() != pt {
						return hx.Failf("C17/encoding/create-with-value", "CreateMoveValue(%s,%s,%s,%s,%d): move part %x (want %x), value %d", from.String(), to.String(), mt.String(), pt.Char(), vi, uint32(mv.MoveOf()), uint32(m), mv.ValueOf())
					}
					m2 := m
					ret := m2.SetValue(v)
					if m2.MoveOf() != m || m2.ValueOf() != v || ret != m2 {
						return hx.Failf("C17/encoding/set-value", "SetValue(%d) on %x gives move part %x value %d", vi, uint32(m), uint32(m2.MoveOf()), m2.ValueOf())
					}
					// overwrite an existing value
					m3 := mv
					m3.SetValue(types.Value(-vi - 1))
					if m3.MoveOf() != m || m3.ValueOf() != types.Value(-vi-1) {
						return hx.Failf("C17/encoding/set-value-overwrite", "SetValue(%d) over value %d on %x gives move part %x value %d", -vi-1, vi, uint32(m), uint32(m3.MoveOf()), m3.ValueOf())
					}
				}
			}
		}
	}
	o.Evals(n * (1 + 3*len(c.Values)))
	o.NTBulk(fmt.Sprintf("enc-from-%d", c.From), int64(n))
	return nil
}

type encValueCase struct {
	Move  uint32 `json:"move16"`
	Lo    int    `json:"lo"`
	Hi    int    `json:"hi"`
	Label string `json:"-"`
}

// propC17ValueRange: the whole sort-value range for one move.
func propC17ValueRange(c encValueCase, o *hx.Obs) *hx.Failure {
	m := types.Move(c.Move)
	for vi := c.Lo; vi <= c.Hi; vi++ {
		m2 := m
		m2.SetValue(types.Value(vi))
		if m2.MoveOf() != m || int(m2.ValueOf()) != vi {
			return hx.Failf("C17/encoding/value-range", "SetValue(%d) on %x gives move part %x value %d", vi, c.Move, uint32(m2.MoveOf()), m2.ValueOf())
		}
	}
	o.Evals(c.Hi - c.Lo + 1)
	o.NT("")
	return nil
}

func TestC17(t *testing.T) {
	r := hx.NewRec(t, "C17")
	defer r.Finish()
	r.Assume("only strings of SAN / UCI shape are generated (variants of real notations); free text around a move is outside the statement")
	r.Assume("sort values in [ValueNA, ValueInf] = [-15001, 15000]; the one field combination that encodes to MoveNone (SetValue documented as no-op) is excluded")
	r.Excluded("field combination encoding to MoveNone (a1a1 normal)", 1)
	if hx.FuzzCrasher(r, "FuzzC17", genFuzzC17, propC17Notation) {
		return
	}

	foreign := func(t *rapid.T, n int) []string {
		var out []string
		for i := 0; i < n; i++ {
			q := hx.GenPosition(t)
			ms := q.Legal()
			if len(ms) == 0 {
				continue
			}
			rc.SortMoves(ms)
			m := ms[rapid.IntRange(0, len(ms)-1).Draw(t, "fm")]
			if rapid.Bool().Draw(t, "asSan") {
				out = append(out, q.SAN(m, rc.SANOpt{NoCheck: rapid.Bool().Draw(t, "nc")}))
			} else {
				out = append(out, m.UCI(rapid.Bool().Draw(t, "lower")))
			}
		}
		return out
	}
	hx.Sub(r, "disambiguation", r.N(1500, 15000), func(t *rapid.T) notationCase {
		p := genDisambig(t)
		return notationCase{Fen: p.FEN(), Extra: foreign(t, 2)}
	}, propC17Notation)
	hx.Sub(r, "positions", r.N(1500, 15000), func(t *rapid.T) notationCase {
		p := hx.GenPosition(t)
		return notationCase{Fen: p.FEN(), Extra: foreign(t, 2)}
	}, propC17Notation)

	boundary := []int{-15001, -15000, -10001, -10000, -9999, -4001, -4000, -1, 0, 1, 255, 256, 9999, 10000, 14999, 15000}
	hx.Sub(r, "encoding", r.N(64, 640), func(t *rapid.T) encCase {
		vals := append([]int{}, boundary...)
		for i := 0; i < r.N(16, 64); i++ {
			vals = append(vals, rapid.IntRange(-15001, 15000).Draw(t, "v"))
		}
		return encCase{From: rapid.IntRange(0, 63).Draw(t, "from"), Values: vals}
	}, propC17Encoding)
	// every origin square at least once, with the boundary values (exhaustive over the 65,536 field combinations)
	hx.Enum(r, "encoding-all-fields", true, func(yield func(encCase) bool) {
		for f := 0; f < 64; f++ {
			if !yield(encCase{From: f, Values: boundary}) {
				return
			}
		}
	}, propC17Encoding)
	hx.Sub(r, "value-range", r.N(64, 640), func(t *rapid.T) encValueCase {
		return encValueCase{Move: uint32(rapid.IntRange(1, 65535).Draw(t, "move")), Lo: -15001, Hi: 15000}
	}, propC17ValueRange)
}
