package props

import (
	"bytes"
	"encoding/gob"
	"fmt"
	"os"
	"path/filepath"
	"runtime"
	"sort"
	"strings"
	"testing"
	"time"

	"github.com/frankkopp/FrankyGo/internal/config"
	"github.com/frankkopp/FrankyGo/internal/openingbook"
	"github.com/frankkopp/FrankyGo/internal/position"
	"github.com/frankkopp/FrankyGo/internal/search"
	"github.com/frankkopp/FrankyGo/internal/types"
	"github.com/frankkopp/FrankyGo/verifharness/hx"
	rc "github.com/frankkopp/FrankyGo/verifharness/refchess"
	"pgregory.net/rapid"
)

// ---------------------------------------------------------------------------
// C19 — opening book: legal moves, schedule- and format-independent.
// C20 — book cache round trip and damaged cache files.
// ---------------------------------------------------------------------------

// bookGame is one game: UCI moves (lower-case) from the start position, optionally with a
// fault token injected after FaultAt legal moves (FaultAt < 0: none).
type bookGame struct {
	Moves   []string `json:"moves"`
	FaultAt int      `json:"fault_at"`
	Fault   string   `json:"fault,omitempty"` // "illegal" (a move-shaped but illegal token) or "unreadable"
}

type bookCase struct {
	Games      []bookGame `json:"games"`
	Decor      int        `json:"decoration"` // 0 plain, 1 standard PGN decorations, 2 hostile-but-legal decorations
	Numbering  int        `json:"numbering"`  // SAN numbering style
	Procs      []int      `json:"gomaxprocs"`
	WithSearch bool       `json:"with_search"`
	SearchPly  int        `json:"search_after_plies,omitempty"` // a second search after this many moves of the first game (its leaf included)
	// OneLinePad > 0: PGN move sections are written on ONE line (as many exporters do), every move followed by a
	// brace comment of this many characters, so that physical lines are tens of kilobytes long and the block
	// boundaries of a buffered reader (4096, 8192 ...) fall inside move tokens
	OneLinePad int `json:"pgn_one_line_comment_pad,omitempty"`
}

type bookModel struct {
	counts  map[uint64]int    // engine key -> visit count
	pos     map[uint64]rc.Pos // engine key -> reference position
	promo   bool
	transp  bool
	dup     bool
	faulted bool
}

// modelOf replays the games' legal prefixes.
func modelOf(games []bookGame) bookModel {
	m := bookModel{counts: map[uint64]int{}, pos: map[uint64]rc.Pos{}}
	start := rc.MustParse(rc.StartFEN)
	rootKey := uint64(hx.NewPos(rc.StartFEN).ZobristKey())
	m.pos[rootKey] = start
	m.counts[rootKey] = 0
	seenGames := map[string]bool{}
	parents := map[uint64]map[uint64]bool{}
	for _, g := range games {
		if len(g.Moves) == 0 {
			continue // an empty line is not a game
		}
		gs := strings.Join(g.Moves, " ")
		if seenGames[gs] {
			m.dup = true
		}
		seenGames[gs] = true
		m.counts[rootKey]++
		p := start
		ep := hx.NewPos(rc.StartFEN)
		for i, s := range g.Moves {
			if g.FaultAt >= 0 && i == g.FaultAt {
				m.faulted = true
				break
			}
			mv, ok := p.FindUCI(s)
			if !ok {
				break
			}
			if mv.Kind == rc.Promotion {
				m.promo = true
			}
			from := uint64(ep.ZobristKey())
			ep.DoMove(hx.ToEngine(mv))
			p = p.Make(mv)
			k := uint64(ep.ZobristKey())
			m.counts[k]++
			m.pos[k] = p
			if parents[k] == nil {
				parents[k] = map[uint64]bool{}
			}
			parents[k][from] = true
			if len(parents[k]) > 1 {
				m.transp = true
			}
		}
	}
	return m
}

func faultToken(g bookGame, p *rc.Pos, san bool) string {
	if g.Fault == "unreadable" {
		// a token no move can be read from; castling written with zeros is the one real files contain
		return []string{"Zz9", "0-0", "0-0-0", "Zz9"}[(len(g.Moves)+g.FaultAt)%4]
	}
	// a move-shaped token that is not legal here
	if san {
		for _, cand := range []string{"Qh5", "Ra5", "Ke4", "Bb5", "Nd5", "O-O-O"} {
			if ms, _ := p.DenoteSAN(cand); len(ms) == 0 {
				return cand
			}
		}
		return "Kh5"
	}
	for _, cand := range []string{"a1a8", "h1h8", "e1e5", "a8a1"} {
		if _, ok := p.FindUCI(cand); !ok {
			return cand
		}
	}
	return "h8h1"
}

// render writes the games in the given format.
func renderBook(c bookCase, format openingbook.BookFormat) string {
	var sb strings.Builder
	start := rc.MustParse(rc.StartFEN)
	for gi, g := range c.Games {
		if len(g.Moves) == 0 {
			sb.WriteString("\n")
			continue
		}
		p := start
		var toks []string
		for i, s := range g.Moves {
			if g.FaultAt >= 0 && i == g.FaultAt {
				toks = append(toks, faultToken(g, &p, format != openingbook.Simple))
			}
			mv, ok := p.FindUCI(s)
			if !ok {
				break
			}
			if format == openingbook.Simple {
				toks = append(toks, rc.SqName(mv.From)+rc.SqName(mv.To))
			} else {
				toks = append(toks, p.SAN(mv, rc.SANOpt{NoCheck: (gi+i)%3 == 0}))
			}
			p = p.Make(mv)
		}
		switch format {
		case openingbook.Simple:
			sep := " "
			if gi%2 == 1 {
				sep = ""
			}
			sb.WriteString(strings.Join(toks, sep) + "\n")
		case openingbook.San:
			sb.WriteString(numbered(toks, c.Numbering, false, 0) + "\n")
		case openingbook.Pgn:
			res := []string{"1-0", "0-1", "1/2-1/2", "*"}[gi%4]
			if c.Decor > 0 {
				sb.WriteString(fmt.Sprintf("[Event \"Game %d\"]\n[Site \"?\"]\n[White \"A, B.\"]\n[Black \"C (D)\"]\n[Result \"%s\"]\n\n", gi+1, res))
			}
			if c.Decor > 0 && gi%3 == 0 {
				sb.WriteString("% an escaped line 1. a4 a5\n")
			}
			if c.OneLinePad > 0 {
				sb.WriteString(oneLine(toks, c.OneLinePad+gi) + " " + res + "\n\n")
			} else {
				sb.WriteString(numbered(toks, c.Numbering, true, c.Decor) + " " + res + "\n\n")
			}
		}
	}
	return sb.String()
}

// oneLine renders a PGN move section on a single physical line, a brace comment of pad characters after every move.
func oneLine(toks []string, pad int) string {
	var sb strings.Builder
	for i, t := range toks {
		if i%2 == 0 {
			fmt.Fprintf(&sb, "%d. ", i/2+1)
		}
		sb.WriteString(t + " {" + strings.Repeat("lorem ipsum ", pad/12+1)[:pad] + "} ")
	}
	return strings.TrimSpace(sb.String())
}

// numbered renders SAN tokens with move numbers; PGN decorations by level.
func numbered(toks []string, style int, pgn bool, decor int) string {
	var sb strings.Builder
	col := 0
	emit := func(s string) {
		if pgn && col+len(s) > 70 {
			sb.WriteString("\n")
			col = 0
		} else if sb.Len() > 0 {
			sb.WriteString(" ")
			col++
		}
		sb.WriteString(s)
		col += len(s)
	}
	for i, t := range toks {
		if i%2 == 0 {
			n := i/2 + 1
			switch style % 3 {
			case 0:
				emit(fmt.Sprintf("%d.", n))
				emit(t)
			case 1:
				emit(fmt.Sprintf("%d.%s", n, t))
			default:
				emit(fmt.Sprintf("%d. %s", n, t))
			}
		} else {
			if style%3 == 2 && pgn && decor > 0 && i%6 == 5 {
				emit(fmt.Sprintf("%d...", i/2+1))
			}
			emit(t)
		}
		if pgn && decor >= 1 {
			switch i % 7 {
			case 1:
				emit("$1")
			case 2:
				emit("{a plain comment}")
			case 4:
				emit("(1. d4 d5 (1... Nf6 2. c4) 2. c4)")
			}
		}
		if pgn && decor >= 2 {
			switch i % 5 {
			case 0:
				emit("{tricky; comment (with) [brackets] 1-0 and e4 Nf3}")
			case 3:
				emit("<reserved>")
			case 2:
				// comments whose text ends a physical line with a game-termination marker
				if i%2 == 0 {
					sb.WriteString(" {White could resign here 1-0\nbut plays on}")
				} else {
					sb.WriteString(" ; a draw was offered 1/2-1/2\n")
				}
				col = 0
			}
		}
	}
	return sb.String()
}

// buildBook writes text to a temp dir and initialises a book from it.
func buildBook(text string, format openingbook.BookFormat, useCache bool, dir string, name string) (*openingbook.Book, error) {
	path := filepath.Join(dir, name)
	if err := os.WriteFile(path, []byte(text), 0o644); err != nil {
		return nil, err
	}
	b := openingbook.NewBook()
	err := b.Initialize(dir, name, format, useCache, false)
	return b, err
}

// bookMap extracts key -> (count, successors) through the public API using the model's key set
// plus the successors' links (so that entries the model does not know are found as well).
func bookCounts(b *openingbook.Book, m *bookModel) (map[uint64]int, map[uint64][]openingbook.Successor) {
	counts := map[uint64]int{}
	succ := map[uint64][]openingbook.Successor{}
	var todo []uint64
	for k := range m.counts {
		todo = append(todo, k)
	}
	seen := map[uint64]bool{}
	for len(todo) > 0 {
		k := todo[len(todo)-1]
		todo = todo[:len(todo)-1]
		if seen[k] {
			continue
		}
		seen[k] = true
		e, ok := b.GetEntry(position.Key(k))
		if !ok {
			continue
		}
		counts[k] = e.Counter
		succ[k] = e.Moves
		for _, s := range e.Moves {
			todo = append(todo, s.NextEntry)
		}
	}
	return counts, succ
}

var formatName = map[openingbook.BookFormat]string{openingbook.Simple: "simple", openingbook.San: "san", openingbook.Pgn: "pgn"}

func compareBook(b *openingbook.Book, m *bookModel, what string) *hx.Failure {
	counts, succ := bookCounts(b, m)
	if b.NumberOfEntries() != len(m.counts) {
		return hx.Failf("C19/entries/number", "%s: NumberOfEntries()=%d, positions of the games (incl. root) %d", what, b.NumberOfEntries(), len(m.counts))
	}
	keys := make([]uint64, 0, len(m.counts))
	for k := range m.counts {
		keys = append(keys, k)
	}
	sort.Slice(keys, func(i, j int) bool { return keys[i] < keys[j] })
	for _, k := range keys {
		p := m.pos[k]
		got, ok := counts[k]
		if !ok {
			return hx.Failf("C19/entries/position-missing", "%s: position %s of the games is not in the book", what, p.FEN())
		}
		if got != m.counts[k] {
			return hx.Failf("C19/entries/count", "%s: position %s has count %d, the games visit it %d times", what, p.FEN(), got, m.counts[k])
		}
	}
	for k, ss := range succ {
		p, known := m.pos[k]
		if !known {
			return hx.Failf("C19/entries/unknown-position", "%s: book holds an entry (key %x) that no game reaches", what, k)
		}
		seen := map[uint32]bool{}
		for _, s := range ss {
			mv := types.Move(s.Move)
			if seen[uint32(mv.MoveOf())] {
				return hx.Failf("C19/successor/offered-twice", "%s: %s offers %s twice", what, p.FEN(), mv.StringUci())
			}
			seen[uint32(mv.MoveOf())] = true
			rm := hx.FromEngine(mv)
			lm, ok := p.FindUCI(rm.UCI(true))
			if !ok || lm != rm {
				return hx.Failf("C19/successor/illegal-move", "%s: %s offers %s which is not legal there", what, p.FEN(), mv.StringUci())
			}
			ep := hx.NewPos(p.FEN())
			ep.DoMove(hx.ToEngine(lm))
			n := p.Make(lm)
			// the key of the successor as reached in the game (ep/castling state by play)
			if _, ok := m.pos[s.NextEntry]; !ok {
				return hx.Failf("C19/successor/link-unknown", "%s: %s move %s links to an entry (key %x) no game reaches", what, p.FEN(), mv.StringUci(), s.NextEntry)
			}
			if q := m.pos[s.NextEntry]; q.FEN4() != n.FEN4() {
				return hx.Failf("C19/successor/wrong-link", "%s: %s move %s links to %s, the move leads to %s", what, p.FEN(), mv.StringUci(), q.FEN(), n.FEN())
			}
		}
	}
	return nil
}

func propC19(c bookCase, o *hx.Obs) *hx.Failure {
	m := modelOf(c.Games)
	dir, err := os.MkdirTemp("", "verifbook")
	if err != nil {
		panic(err)
	}
	defer os.RemoveAll(dir)
	oldProcs := runtime.GOMAXPROCS(0)
	defer runtime.GOMAXPROCS(oldProcs)

	formats := []openingbook.BookFormat{openingbook.San, openingbook.Pgn}
	unreadable := false
	for _, g := range c.Games {
		if g.FaultAt >= 0 && g.Fault == "unreadable" && g.FaultAt < len(g.Moves) {
			unreadable = true
		}
	}
	// the coordinate format has no promotion letter and skips tokens that are not coordinate moves
	if !m.promo && !unreadable {
		formats = append([]openingbook.BookFormat{openingbook.Simple}, formats...)
	} else if m.promo {
		o.Label("promotion-game(simple format excluded)")
	}
	for _, f := range formats {
		text := renderBook(c, f)
		for _, procs := range c.Procs {
			runtime.GOMAXPROCS(procs)
			var b *openingbook.Book
			var berr error
			done := make(chan struct{})
			go func() {
				defer close(done)
				if fl := hx.Guard("C19/build", func() *hx.Failure { b, berr = buildBook(text, f, false, dir, "book."+formatName[f]); return nil }); fl != nil {
					berr = fl
				}
			}()
			// the watchdog grows with the book (tens of thousands of lines on one core of a busy machine, or in the
			// -race build, legitimately take longer than 20 s): a slow build is inconclusive, only a build that does
			// not end within ten times that allowance is reported as a hang
			allow := 20*time.Second + time.Duration(len(c.Games))*5*time.Millisecond
			select {
			case <-done:
			case <-time.After(allow):
				select {
				case <-done:
					o.Label("slow-build(inconclusive: ended within 10x the allowance)")
				case <-time.After(9 * allow):
					return hx.Failf("C19/build/hang", "building the %s book did not finish within %v", formatName[f], 10*allow)
				}
			}
			select {
			case <-done:
			default:
				return hx.Failf("C19/build/hang", "building the %s book did not finish", formatName[f])
			}
			if fl, ok := berr.(*hx.Failure); ok {
				return fl
			}
			if berr != nil {
				return hx.Failf("C19/build/error", "Initialize(%s) = %v", formatName[f], berr)
			}
			o.Evals(1)
			what := fmt.Sprintf("format %s, GOMAXPROCS %d, decoration %d", formatName[f], procs, c.Decor)
			if fl := compareBook(b, &m, what); fl != nil {
				if f == openingbook.Pgn && c.Decor == 2 {
					fl.Sig += "/pgn-hostile-decoration"
					// root cause: does the same text without the semicolon inside the brace comments build correctly?
					alt := strings.ReplaceAll(text, "tricky; comment", "tricky, comment")
					if b2, err2 := buildBook(alt, f, false, dir, "book.alt.pgn"); err2 == nil && compareBook(b2, &m, what) == nil {
						fl.Sig = "C19/format/pgn-semicolon-inside-brace-comment"
					}
				} else if f == openingbook.Pgn && c.Decor == 1 {
					fl.Sig += "/pgn-decoration"
				}
				fl.Msg += "\n--- source ---\n" + text
				return fl
			}
		}
	}
	// book move from a time-controlled search
	// (only when the book offers a move in the root: at least one game has a legal first move)
	if c.WithSearch && m.counts[uint64(hx.NewPos(rc.StartFEN).ZobristKey())] > 0 && len(m.counts) > 1 && !m.promo {
		save := config.Settings
		defer func() { config.Settings = save }()
		name := "searchbook.san"
		if err := os.WriteFile(filepath.Join(dir, name), []byte(renderBook(c, openingbook.San)), 0o644); err != nil {
			panic(err)
		}
		config.Settings.Search.UseBook = true
		config.Settings.Search.BookPath = dir
		config.Settings.Search.BookFile = name
		config.Settings.Search.BookFormat = "San"
		s := search.NewSearch()
		sl := search.NewSearchLimits()
		sl.TimeControl = true
		sl.MoveTime = 40 * time.Millisecond
		s.StartSearch(*position.NewPosition(), *sl)
		done := make(chan struct{})
		go func() { s.WaitWhileSearching(); close(done) }()
		select {
		case <-done:
		case <-time.After(20 * time.Second):
			return hx.Failf("C19/search/hang", "search with book did not finish")
		}
		res := s.LastSearchResult()
		o.Label("search-with-book")
		start := rc.MustParse(rc.StartFEN)
		if _, ok := start.FindUCI(hx.FromEngine(res.BestMove).UCI(true)); !ok {
			return hx.Failf("C19/search/book-move-illegal", "search with book returned %s (book move %v)", res.BestMove.StringUci(), res.BookMove)
		}
		if !res.BookMove {
			return hx.Failf("C19/search/no-book-move", "time-controlled search in a book position did not use the book (best %s)", res.BestMove.StringUci())
		}
		// a second search of the same engine further down a game - inside the book, on its last position
		// (a leaf: the book knows the position but offers nothing) or one move beyond
		var prefix []rc.Move
		for _, g := range c.Games {
			q := start
			prefix = prefix[:0]
			for i, ms := range g.Moves {
				if g.FaultAt >= 0 && i == g.FaultAt {
					break
				}
				mv, ok := q.FindUCI(ms)
				if !ok {
					break
				}
				prefix = append(prefix, mv)
				q = q.Make(mv)
			}
			if len(prefix) > 0 {
				break
			}
		}
		if len(prefix) > 0 && c.SearchPly > 0 {
			k := c.SearchPly
			if k > len(prefix) {
				k = len(prefix)
			}
			q := start
			ep := position.NewPosition()
			for _, mv := range prefix[:k] {
				q = q.Make(mv)
				ep.DoMove(hx.ToEngine(mv))
			}
			if len(q.Legal()) > 0 {
				// continuations the games offer in q
				offered := map[string]bool{}
				qsig := q.FEN4()
				for _, g := range c.Games {
					w := start
					for i, ms := range g.Moves {
						if g.FaultAt >= 0 && i == g.FaultAt {
							break
						}
						mv, ok := w.FindUCI(ms)
						if !ok {
							break
						}
						if w.FEN4() == qsig {
							offered[mv.UCI(true)] = true
						}
						w = w.Make(mv)
					}
				}
				s.StartSearch(*ep, *sl)
				done2 := make(chan struct{})
				go func() { s.WaitWhileSearching(); close(done2) }()
				select {
				case <-done2:
				case <-time.After(20 * time.Second):
					return hx.Failf("C19/search/hang", "search on %s (after %d plies of the first game) did not finish", q.FEN(), k)
				}
				res2 := s.LastSearchResult()
				best := hx.FromEngine(res2.BestMove).UCI(true)
				if _, ok := q.FindUCI(best); !ok {
					return hx.Failf("C19/search/book-move-illegal", "search on %s (after %d plies of the first game, book offers %v) returned %s (book move %v)", q.FEN(), k, offered, res2.BestMove.StringUci(), res2.BookMove)
				}
				if res2.BookMove && !offered[best] {
					return hx.Failf("C19/search/book-move-not-in-games", "search on %s: book move %s, the games continue with %v", q.FEN(), best, offered)
				}
				// (not demanded: that the book is used whenever the games continue - a continuation that transposes
				// into a position the book already knows is counted but not linked from its second parent)
				if len(offered) == 0 {
					o.Label("search-on-book-leaf")
				} else {
					o.Label("search-inside-book")
				}
			}
		}
	}
	if m.transp {
		o.Label("transposition")
	}
	if m.dup {
		o.Label("duplicate-game")
	}
	if m.faulted {
		o.Label("fault-injected")
	}
	o.Label(fmt.Sprintf("decoration-%d", c.Decor))
	if (m.transp || m.dup || m.faulted) && len(formats) >= 2 {
		o.NT("")
	}
	return nil
}

// genGames draws 1..maxGames games with shared prefixes, duplicates and transpositions.
func genGames(t *rapid.T, maxGames, maxPlies int, faults bool) []bookGame {
	n := rapid.IntRange(1, maxGames).Draw(t, "games")
	var games []bookGame
	start := rc.MustParse(rc.StartFEN)
	for i := 0; i < n; i++ {
		var g bookGame
		g.FaultAt = -1
		kind := rapid.IntRange(0, 5).Draw(t, "kind")
		switch {
		case kind == 0 && len(games) > 0: // exact duplicate
			g = games[rapid.IntRange(0, len(games)-1).Draw(t, "dupOf")]
			g.FaultAt = -1
		case kind == 1 && len(games) > 0: // transposition: swap white's first two moves of an earlier game if legal
			src := games[rapid.IntRange(0, len(games)-1).Draw(t, "trOf")]
			mv := append([]string{}, src.Moves...)
			if len(mv) >= 4 {
				mv[0], mv[2] = mv[2], mv[0]
				if rapid.Bool().Draw(t, "swapBlack") {
					mv[1], mv[3] = mv[3], mv[1]
				}
			}
			// keep the legal prefix only
			p := start
			var ok []string
			for _, s := range mv {
				m, found := p.FindUCI(s)
				if !found {
					break
				}
				ok = append(ok, s)
				p = p.Make(m)
			}
			g.Moves = ok
		default:
			p := start
			plies := rapid.IntRange(1, maxPlies).Draw(t, "plies")
			// shared prefix with an earlier game
			if len(games) > 0 && rapid.Bool().Draw(t, "sharePrefix") {
				src := games[rapid.IntRange(0, len(games)-1).Draw(t, "prefOf")]
				k := rapid.IntRange(0, len(src.Moves)).Draw(t, "prefLen")
				for _, s := range src.Moves[:k] {
					m, _ := p.FindUCI(s)
					g.Moves = append(g.Moves, s)
					p = p.Make(m)
				}
			}
			for len(g.Moves) < plies {
				legal := p.Legal()
				if len(legal) == 0 {
					break
				}
				rc.SortMoves(legal)
				m := hx.PickMove(t, &p, legal, 1)
				g.Moves = append(g.Moves, m.UCI(true))
				p = p.Make(m)
			}
		}
		if faults && len(g.Moves) > 0 && rapid.IntRange(0, 4).Draw(t, "fault") == 0 {
			g.FaultAt = rapid.IntRange(0, len(g.Moves)-1).Draw(t, "faultAt")
			g.Fault = rapid.SampledFrom([]string{"illegal", "illegal", "unreadable"}).Draw(t, "faultKind")
		}
		games = append(games, g)
	}
	return games
}

// ---- C20 -------------------------------------------------------------------

type cacheCase struct {
	Games  []bookGame `json:"games"`
	Kind   string     `json:"fault"` // roundtrip, missing, empty, prefix, flip, splice, garbage
	Offset int        `json:"offset,omitempty"`
	Byte   int        `json:"byte,omitempty"`
	Twice  bool       `json:"second_initialisation"`
	// Earlier: before the case proper another book lives at the same path in this process (built with the cache
	// enabled and loaded back once), then all its files are removed - a book file that was replaced
	Earlier bool `json:"earlier_book_at_same_path,omitempty"`
}

func sourceBook(games []bookGame) (string, bookModel) {
	c := bookCase{Games: games}
	return renderBook(c, openingbook.San), modelOf(games)
}

// initWithWatchdog runs Initialize with the cache enabled; on a hang the process is lost
// (the package-level book mutex is leaked), so the caller must exit.
func initWithWatchdog(dir, name string) (b *openingbook.Book, err error, hung bool, fl *hx.Failure) {
	done := make(chan struct{})
	go func() {
		defer close(done)
		fl = hx.Guard("C20/initialize", func() *hx.Failure {
			b = openingbook.NewBook()
			err = b.Initialize(dir, name, openingbook.San, true, false)
			return nil
		})
	}()
	select {
	case <-done:
		return b, err, false, fl
	case <-time.After(8 * time.Second):
		return nil, nil, true, nil
	}
}

// cacheDir returns the same (emptied) directory for every case of this process: over the life of an engine
// process the same book path sees different book and cache contents, so nothing remembered about a path
// (rather than read from the files) may survive from one case to the next.
func cacheDir(tag string) string {
	dir := filepath.Join(os.TempDir(), fmt.Sprintf("verifcache-%s-%d", tag, os.Getpid()))
	os.RemoveAll(dir)
	if err := os.MkdirAll(dir, 0o755); err != nil {
		panic(err)
	}
	return dir
}

func propC20(c cacheCase, o *hx.Obs) *hx.Failure {
	text, m := sourceBook(c.Games)
	dir := cacheDir("main")
	defer os.RemoveAll(dir)
	name := "book.san"
	if c.Earlier {
		const earlier = "1. d4 d5 2. c4 e6 3. Nc3 Nf6\n1. d4 Nf6 2. c4 g6\n1. c4 e5\n"
		if _, err := buildBook(earlier, openingbook.San, true, dir, name); err != nil {
			return hx.Failf("C20/build/error", "Initialize of the earlier book: %v", err)
		}
		if _, _, hung, fl := initWithWatchdog(dir, name); hung {
			hx.Die("C20/initialize/hang/earlier", "Initialize with the intact cache of the earlier book did not return within 8 s")
		} else if fl != nil {
			return fl
		}
		dir = cacheDir("main") // all files of the earlier book are gone
		o.Label("earlier-book-at-same-path")
	}
	// build from source with the cache enabled: writes book.san.cache
	b0, err0 := buildBook(text, openingbook.San, true, dir, name)
	if err0 != nil {
		return hx.Failf("C20/build/error", "Initialize from source: %v", err0)
	}
	if fl := compareBook(b0, &m, "built from source (cache enabled)"); fl != nil {
		fl.Sig = strings.Replace(fl.Sig, "C19/", "C20/source-build/", 1)
		return fl
	}
	cachePath, ferr := findCacheFile(dir, name)
	if ferr != nil {
		return hx.Failf("C20/save/no-cache-file", "building with the cache enabled wrote no cache file: %v", ferr)
	}
	good, rerr := os.ReadFile(cachePath)
	if rerr != nil {
		return hx.Failf("C20/save/no-cache-file", "no cache file written: %v", rerr)
	}
	var bad []byte
	switch c.Kind {
	case "roundtrip":
		bad = good
	case "missing":
		os.Remove(cachePath)
	case "empty":
		bad = []byte{}
	case "prefix":
		if c.Offset >= len(good) {
			return nil
		}
		bad = append([]byte{}, good[:c.Offset]...)
	case "flip":
		bad = append([]byte{}, good...)
		bad[c.Offset%len(bad)] ^= byte(1 << uint(c.Byte%8))
	case "splice":
		bad = append([]byte{}, good...)
		off := c.Offset % len(bad)
		bad = append(bad[:off], append([]byte{byte(c.Byte), byte(c.Byte >> 3), 0xff}, bad[off:]...)...)
	case "garbage":
		bad = bytes.Repeat([]byte{byte(c.Byte)}, 1+c.Offset%200)
	}
	if c.Kind != "missing" {
		if err := os.WriteFile(cachePath, bad, 0o644); err != nil {
			panic(err)
		}
	}
	// a damaged variant that still decodes (valid but different content) is outside "undecodable"
	if c.Kind == "flip" || c.Kind == "splice" || c.Kind == "garbage" {
		var probe map[uint64]openingbook.BookEntry
		if gob.NewDecoder(bytes.NewReader(bad)).Decode(&probe) == nil {
			o.Label("excluded:corruption-still-decodable")
			return nil
		}
	}
	rounds := 1
	if c.Twice {
		rounds = 2
	}
	for r := 0; r < rounds; r++ {
		b, err, hung, fl := initWithWatchdog(dir, name)
		if hung {
			hx.Die(fmt.Sprintf("C20/initialize/hang/%s", c.Kind), fmt.Sprintf("Initialize with a %s cache file (offset %d of %d bytes) did not return within 8 s (round %d)", c.Kind, c.Offset, len(good), r+1))
		}
		if fl != nil {
			fl.Sig = "C20/initialize/panic/" + c.Kind
			return fl
		}
		if err != nil {
			return hx.Failf("C20/initialize/error/"+c.Kind, "Initialize with a %s cache file returned %v", c.Kind, err)
		}
		o.Evals(1)
		what := fmt.Sprintf("cache %s (offset %d of %d bytes), initialisation %d", c.Kind, c.Offset, len(good), r+1)
		if fl := compareBook(b, &m, what); fl != nil {
			fl.Sig = strings.Replace(fl.Sig, "C19/", "C20/"+c.Kind+"/", 1)
			return fl
		}
		if c.Kind == "roundtrip" {
			// loaded from cache must be identical to the source-built book incl. successors
			c0, s0 := bookCounts(b0, &m)
			c1, s1 := bookCounts(b, &m)
			if len(c0) != len(c1) {
				return hx.Failf("C20/roundtrip/entries", "source-built %d entries, cache-loaded %d", len(c0), len(c1))
			}
			for k, ss := range s0 {
				if len(ss) != len(s1[k]) {
					return hx.Failf("C20/roundtrip/successors", "entry %x: %d successors from source, %d from cache", k, len(ss), len(s1[k]))
				}
				for i := range ss {
					if ss[i] != s1[k][i] {
						return hx.Failf("C20/roundtrip/successors", "entry %x successor %d differs", k, i)
					}
				}
			}
		}
	}
	if c.Kind == "prefix" && c.Offset > 0 {
		o.NT(fmt.Sprintf("%s|%d", text, c.Offset))
	} else if c.Kind != "prefix" {
		o.NT("")
	}
	o.Label("fault:" + c.Kind)
	return nil
}

// findCacheFile returns the file that a build with the cache enabled has written next to the book file
// (the naming scheme of the cache is not part of the property: whatever appears besides the source is it).
func findCacheFile(dir, name string) (string, error) {
	es, err := os.ReadDir(dir)
	if err != nil {
		return "", err
	}
	var others []string
	for _, e := range es {
		if e.Name() != name && !e.IsDir() {
			others = append(others, e.Name())
		}
	}
	if len(others) != 1 {
		return "", fmt.Errorf("files besides the book file: %v", others)
	}
	return filepath.Join(dir, others[0]), nil
}

// ---- several book files side by side ------------------------------------------
// The cache of one book must never be taken for another book's: file names that share a stem, an
// extension or a prefix, different formats, in one directory, initialised in a drawn order.

type sideBook struct {
	Name   string     `json:"name"`
	Format int        `json:"format"` // 0 simple, 1 san, 2 pgn
	Games  []bookGame `json:"games"`
	Games2 []bookGame `json:"games_after_rewrite,omitempty"` // content after an "update of the book file" step
}

type sideCase struct {
	Books []sideBook `json:"books"`
	Order []int      `json:"order"`
}

func propC20Side(c sideCase, o *hx.Obs) *hx.Failure {
	dir := cacheDir("side")
	defer os.RemoveAll(dir)
	formats := []openingbook.BookFormat{openingbook.Simple, openingbook.San, openingbook.Pgn}
	models := make([]bookModel, len(c.Books))
	for i, b := range c.Books {
		bc := bookCase{Games: b.Games}
		text := renderBook(bc, formats[b.Format])
		if err := os.WriteFile(filepath.Join(dir, b.Name), []byte(text), 0o644); err != nil {
			panic(err)
		}
		models[i] = modelOf(b.Games)
	}
	seenBefore := map[int]bool{}
	for step, bi := range c.Order {
		// an entry >= len(Books) is an update of book bi-len: the file is rewritten with other games and
		// initialised with recreateCache=true (what a user does after editing the book)
		recreate := false
		if bi >= len(c.Books) {
			bi -= len(c.Books)
			if bi >= len(c.Books) || len(c.Books[bi].Games2) == 0 {
				continue
			}
			recreate = true
			nb := c.Books[bi]
			text := renderBook(bookCase{Games: nb.Games2}, formats[nb.Format])
			if err := os.WriteFile(filepath.Join(dir, nb.Name), []byte(text), 0o644); err != nil {
				panic(err)
			}
			models[bi] = modelOf(nb.Games2)
			o.Label("side-by-side:book-file-rewritten-and-cache-recreated")
		}
		b := c.Books[bi]
		var book *openingbook.Book
		var ierr error
		done := make(chan *hx.Failure, 1)
		go func() {
			done <- hx.Guard("C20/side/initialize", func() *hx.Failure {
				book = openingbook.NewBook()
				ierr = book.Initialize(dir, b.Name, formats[b.Format], true, recreate)
				return nil
			})
		}()
		select {
		case fl := <-done:
			if fl != nil {
				return fl
			}
		case <-time.After(8 * time.Second):
			hx.Die("C20/side/hang", fmt.Sprintf("Initialize(%s) with other books' caches present did not return within 8 s", b.Name))
		}
		if ierr != nil {
			return hx.Failf("C20/side/error", "step %d: Initialize(%s) returned %v", step, b.Name, ierr)
		}
		o.Evals(1)
		var names []string
		for _, x := range c.Books {
			names = append(names, x.Name)
		}
		what := fmt.Sprintf("step %d: book file %q initialised with the cache enabled in a directory holding %q (order %v)", step+1, b.Name, names, c.Order)
		if fl := compareBook(book, &models[bi], what); fl != nil {
			fl.Sig = strings.Replace(fl.Sig, "C19/", "C20/side-by-side/", 1)
			return fl
		}
		if seenBefore[bi] {
			o.Label("side-by-side:reload-after-other-book")
		}
		seenBefore[bi] = true
	}
	if len(c.Books) > 1 {
		o.NTKey(fmt.Sprintf("%v", c))
	}
	return nil
}

func TestC19(t *testing.T) {
	r := hx.NewRec(t, "C19")
	defer r.Finish()
	r.Assume("visit count = number of times a game reaches the position (root once per game); a line contributes its legal prefix up to an illegal, move-shaped token; unreadable tokens are only injected in SAN/PGN (the coordinate format skips non-move text by design)")
	r.Assume("games with promotions are excluded from the coordinate format (no promotion letter in that format)")
	r.Assume("successor links are validated (legal, correct target, unique) but completeness of links is not claimed by the property")

	procsets := [][]int{{1}, {4}, {16}, {1, 16}}
	gen := func(decor int, faults bool, maxGames int) func(t *rapid.T) bookCase {
		return func(t *rapid.T) bookCase {
			return bookCase{Games: genGames(t, maxGames, 30, faults), Decor: decor, Numbering: rapid.IntRange(0, 2).Draw(t, "numbering"),
				Procs: procsets[rapid.IntRange(0, len(procsets)-1).Draw(t, "procs")], WithSearch: rapid.IntRange(0, 5).Draw(t, "withSearch") == 0,
				SearchPly: rapid.SampledFrom([]int{0, 1, 2, 5, 100, 100}).Draw(t, "searchPly")}
		}
	}
	r.Inflight(true) // a concurrent map access in the parallel build is a fatal error of the Go runtime, not a panic
	div := 1
	if r.Race() {
		div = 4
	}
	hx.Sub(r, "plain", r.N(150, 1500)/div, gen(0, true, 40), propC19)
	hx.Sub(r, "pgn-decorated", r.N(120, 1200)/div, gen(1, true, 25), propC19)
	hx.Sub(r, "pgn-hostile-decorated", r.N(60, 600)/div, gen(2, false, 12), propC19)
	// PGN with one-line move sections of 5-60 kB (below the 64 kB line limit of the engine's reader)
	hx.Sub(r, "pgn-one-line", r.N(40, 400)/div, func(t *rapid.T) bookCase {
		c := gen(1, false, 6)(t)
		c.WithSearch = false
		c.OneLinePad = rapid.IntRange(150, 1900).Draw(t, "pad")
		return c
	}, propC19)
	// large books of many short lines (tens of thousands of goroutine tasks touching the same few entries):
	// a rare lost update in the parallel build (one in ten thousand lines) only shows here
	hx.Sub(r, "many-lines", r.N(1, 7)/div+1, func(t *rapid.T) bookCase {
		distinct := genGames(t, 30, 4, false)
		var nonEmpty []bookGame
		for _, g := range distinct {
			if len(g.Moves) > 0 {
				nonEmpty = append(nonEmpty, g)
			}
		}
		if len(nonEmpty) == 0 {
			nonEmpty = []bookGame{{Moves: []string{"e2e4", "e7e5"}, FaultAt: -1}}
		}
		n := rapid.IntRange(40000, 60000).Draw(t, "lines")
		step := rapid.SampledFrom([]int{1, 7, 13}).Draw(t, "step")
		games := make([]bookGame, n)
		for i := range games {
			games[i] = nonEmpty[(i*step)%len(nonEmpty)]
		}
		return bookCase{Games: games, Procs: []int{16}}
	}, propC19)
}

func TestC20(t *testing.T) {
	r := hx.NewRec(t, "C20")
	defer r.Finish()
	r.Inflight(true)
	r.Assume("a corrupted cache that still decodes as a (different) valid book is outside 'undecodable' and excluded (counted under labels)")
	r.Assume("crash point model: the cache file holds a prefix of the bytes of a complete save (non-atomic os.Create + encode)")

	// exhaustive over every prefix length of the cache files of generated books
	nbooks := r.N(5, 10)
	hx.Sub(r, "books", nbooks, func(t *rapid.T) cacheCase {
		return cacheCase{Games: genGames(t, 12, 12, false), Kind: "roundtrip", Twice: true, Earlier: true}
	}, func(c cacheCase, o *hx.Obs) *hx.Failure {
		if f := propC20(c, o); f != nil {
			return f
		}
		for _, k := range []string{"missing", "empty"} {
			if f := propC20(cacheCase{Games: c.Games, Kind: k, Twice: true, Earlier: true}, o); f != nil {
				return f
			}
		}
		// every crash point of the save
		text, _ := sourceBook(c.Games)
		dir := cacheDir("len")
		defer os.RemoveAll(dir)
		if _, err := buildBook(text, openingbook.San, true, dir, "b.san"); err != nil {
			return hx.Failf("C20/build/error", "%v", err)
		}
		cp, ferr := findCacheFile(dir, "b.san")
		if ferr != nil {
			return hx.Failf("C20/save/no-cache-file", "building with the cache enabled wrote no cache file: %v", ferr)
		}
		good, _ := os.ReadFile(cp)
		for off := 0; off < len(good); off++ {
			if f := propC20(cacheCase{Games: c.Games, Kind: "prefix", Offset: off, Twice: off%16 == 0}, o); f != nil {
				return f
			}
		}
		o.NTBulk(fmt.Sprintf("prefixes|%s", text), int64(len(good)))
		o.Label("book-with-all-prefixes")
		return nil
	})

	// several book files (related names, different formats and games) in one directory
	hx.Sub(r, "side-by-side", r.N(60, 600), func(t *rapid.T) sideCase {
		nameSets := [][]string{{"book.san", "book.pgn", "book.txt"}, {"book", "book.san", "book.san.old"}, {"a.txt", "b.txt", "ab.txt"}, {"book.v1.pgn", "book.v2.pgn", "book.pgn"}, {"Book.txt", "book.txt", "book.TXT"}}
		names := nameSets[rapid.IntRange(0, len(nameSets)-1).Draw(t, "names")]
		n := rapid.IntRange(2, 3).Draw(t, "nbooks")
		var c sideCase
		for i := 0; i < n; i++ {
			sb := sideBook{Name: names[i], Format: rapid.IntRange(0, 2).Draw(t, "format"), Games: genGames(t, 6, 8, false)}
			if rapid.Bool().Draw(t, "rewritten") {
				sb.Games2 = genGames(t, 6, 8, false)
			}
			c.Books = append(c.Books, sb)
		}
		for i := rapid.IntRange(n, 3*n).Draw(t, "steps"); i > 0; i-- {
			// 0..n-1: initialise book i with the cache enabled; n..2n-1: rewrite book i-n and recreate its cache
			c.Order = append(c.Order, rapid.IntRange(0, n+n/2).Draw(t, "which"))
		}
		return c
	}, propC20Side)

	hx.Sub(r, "corruptions", r.N(250, 1500), func(t *rapid.T) cacheCase {
		return cacheCase{Games: genGames(t, 10, 10, false), Kind: rapid.SampledFrom([]string{"flip", "flip", "splice", "garbage", "prefix"}).Draw(t, "kind"),
			Offset: rapid.IntRange(0, 5000).Draw(t, "off"), Byte: rapid.IntRange(0, 255).Draw(t, "byte"), Twice: rapid.Bool().Draw(t, "twice"), Earlier: rapid.IntRange(0, 2).Draw(t, "earlier") == 0}
	}, propC20)
}
