package props

import (
	"fmt"
	"math/bits"
	"testing"

	"github.com/frankkopp/FrankyGo/internal/position"
	tt "github.com/frankkopp/FrankyGo/internal/transpositiontable"
	"github.com/frankkopp/FrankyGo/internal/types"
	"github.com/frankkopp/FrankyGo/verifharness/hx"
	"pgregory.net/rapid"
)

// ---------------------------------------------------------------------------
// C11 — transposition table returns only what was stored for that key.
// Stateful model-based test.
// ---------------------------------------------------------------------------

type ttOp struct {
	Op    string `json:"op"` // put probe get age clear resize
	Key   uint64 `json:"key,omitempty"`
	Move  uint32 `json:"move,omitempty"` // 16-bit move part
	Value int    `json:"value,omitempty"`
	Depth int    `json:"depth,omitempty"`
	Type  int    `json:"type,omitempty"`
	Size  int    `json:"size_mb,omitempty"`
}

type ttCase struct {
	InitSize int    `json:"init_size_mb"`
	Ops      []ttOp `json:"ops"`
}

type ttModelEntry struct {
	key       uint64
	move      uint32
	value     int
	depth     int
	typ       int
	agedSince int // AgeEntries calls since written
}

// specCapacity: largest power of two of 16-byte entries fitting sizeMB.
func specCapacity(sizeMB int) uint64 {
	if sizeMB <= 0 {
		return 0
	}
	n := uint64(sizeMB) * 1024 * 1024 / 16
	return 1 << uint(63-bits.LeadingZeros64(n))
}

var recC11 *hx.Rec

func propC11(c ttCase, o *hx.Obs) *hx.Failure {
	var table *tt.TtTable
	if f := hx.Guard("C11/new", func() *hx.Failure { table = tt.NewTtTable(c.InitSize); return nil }); f != nil {
		return f
	}
	capacity := specCapacity(c.InitSize)
	model := map[uint64]*ttModelEntry{} // slot -> entry
	sawCollisionAfterAge, sawUpdate, sawProbeAfterClear := false, false, false
	agedOnce, clearedOnce := false, false
	everStored := map[uint64]bool{}

	checkEntry := func(what string, key uint64, e *tt.TtEntry) *hx.Failure {
		var want *ttModelEntry
		if capacity > 0 {
			if m := model[key&(capacity-1)]; m != nil && m.key == key {
				want = m
			}
		}
		if e == nil {
			if want != nil {
				o.Label("stored-entry-not-returned")
			}
			return nil // "either nothing or ..." - a miss is always allowed
		}
		if uint64(e.Key) != key {
			return hx.Failf("C11/lookup/foreign-key", "%s(%x) returned an entry stored under key %x", what, key, uint64(e.Key))
		}
		if want == nil {
			return hx.Failf("C11/lookup/stale-entry", "%s(%x) returned an entry although nothing is stored for this key any more (after clear/resize/overwrite)", what, key)
		}
		if uint32(e.Move.MoveOf()) != want.move {
			return hx.Failf("C11/lookup/move", "%s(%x): move %x, most recent stored %x", what, key, uint32(e.Move.MoveOf()), want.move)
		}
		if int(e.Move.ValueOf()) != want.value {
			if want.move == 0 {
				f := hx.Failf("C11/value-lost/move-none", "Put(%x, MoveNone, depth %d, value %d, type %d) then %s: value read back %d", key, want.depth, want.value, want.typ, what, int(e.Move.ValueOf()))
				if recC11 == nil || !recC11.KnownInline(f.Sig, f.Msg) {
					return f
				}
				// listed known finding: tolerated here so that the rest of the history is still checked
				if int(e.Move.ValueOf()) != int(types.ValueNA) {
					return hx.Failf("C11/lookup/value", "%s(%x): value %d for a move-less entry (stored %d)", what, key, int(e.Move.ValueOf()), want.value)
				}
			} else {
				return hx.Failf("C11/lookup/value", "%s(%x): value %d, most recent stored %d (move %x)", what, key, int(e.Move.ValueOf()), want.value, want.move)
			}
		}
		if int(e.Depth) != want.depth {
			return hx.Failf("C11/lookup/depth", "%s(%x): depth %d, stored %d", what, key, e.Depth, want.depth)
		}
		if int(e.Type) != want.typ {
			return hx.Failf("C11/lookup/type", "%s(%x): bound type %d, stored %d", what, key, e.Type, want.typ)
		}
		return nil
	}
	checkCounts := func(after string) *hx.Failure {
		if got := table.Len(); got != uint64(len(model)) {
			return hx.Failf("C11/count/len-after-"+after, "after %s: Len()=%d, occupied slots %d", after, got, len(model))
		}
		wantFull := 0
		if capacity > 0 {
			wantFull = int(1000 * uint64(len(model)) / capacity)
		}
		if got := table.Hashfull(); got != wantFull {
			return hx.Failf("C11/count/hashfull-after-"+after, "after %s: Hashfull()=%d, want %d (occupied %d of %d)", after, got, wantFull, len(model), capacity)
		}
		return nil
	}

	for i, op := range c.Ops {
		o.Evals(1)
		var fail *hx.Failure
		key := position.Key(op.Key)
		switch op.Op {
		case "put":
			fail = hx.Guard("C11/put", func() *hx.Failure {
				table.Put(key, types.Move(op.Move), int8(op.Depth), types.Value(op.Value), types.ValueType(op.Type), false)
				return nil
			})
			if fail != nil || capacity == 0 {
				break
			}
			slot := op.Key & (capacity - 1)
			newE := &ttModelEntry{op.Key, op.Move, op.Value, op.Depth, op.Type, 0}
			res := model[slot]
			var now *tt.TtEntry
			if f := hx.Guard("C11/get", func() *hx.Failure { now = table.GetEntry(key); return nil }); f != nil {
				fail = f
				break
			}
			switch {
			case res == nil || res.key == op.Key:
				if res != nil {
					sawUpdate = true
				}
				if now == nil {
					fail = hx.Failf("C11/store-not-retrievable", "op %d: Put(%x) into an empty slot / over the same key, GetEntry right after returns nothing", i, op.Key)
					break
				}
				model[slot] = newE
				everStored[op.Key] = true
			default: // collision with a different key
				replaced := now != nil
				if replaced {
					if !(op.Depth > res.depth || (op.Depth == res.depth && res.agedSince >= 1)) {
						fail = hx.Failf("C11/replacement/not-allowed", "op %d: colliding Put(%x, depth %d) replaced resident %x (depth %d, aged %d times since written)", i, op.Key, op.Depth, res.key, res.depth, res.agedSince)
						break
					}
					model[slot] = newE
					everStored[op.Key] = true
				}
				if res.agedSince >= 1 {
					sawCollisionAfterAge = true
				}
				o.Label(fmt.Sprintf("collision-replaced-%v", replaced))
			}
			if fail == nil {
				fail = checkEntry("GetEntry after Put", op.Key, table.GetEntry(key))
			}
		case "probe", "get":
			var e *tt.TtEntry
			fail = hx.Guard("C11/"+op.Op, func() *hx.Failure {
				if op.Op == "probe" {
					e = table.Probe(key)
				} else {
					e = table.GetEntry(key)
				}
				return nil
			})
			if fail != nil {
				if capacity == 0 {
					fail.Sig = "C11/" + op.Op + "/panic/size-0-table"
				}
				break
			}
			fail = checkEntry(op.Op, op.Key, e)
			if clearedOnce && everStored[op.Key] {
				sawProbeAfterClear = true
			}
		case "age":
			fail = hx.Guard("C11/age", func() *hx.Failure { table.AgeEntries(); return nil })
			for _, m := range model {
				m.agedSince++
			}
			agedOnce = true
		case "clear":
			fail = hx.Guard("C11/clear", func() *hx.Failure { table.Clear(); return nil })
			model = map[uint64]*ttModelEntry{}
			clearedOnce = true
		case "resize":
			fail = hx.Guard("C11/resize", func() *hx.Failure { table.Resize(op.Size); return nil })
			model = map[uint64]*ttModelEntry{}
			capacity = specCapacity(op.Size)
			clearedOnce = true
			o.Label(fmt.Sprintf("resize-%dMB", op.Size))
		}
		if fail == nil {
			fail = checkCounts(op.Op)
		}
		if fail != nil {
			fail.Msg = fmt.Sprintf("op %d %+v: %s", i, op, fail.Msg)
			return fail
		}
	}
	_ = agedOnce
	if sawCollisionAfterAge {
		o.Label("collision-after-ageing")
	}
	if sawUpdate {
		o.Label("same-key-update")
	}
	if sawProbeAfterClear {
		o.Label("lookup-after-clear-or-resize")
	}
	if sawCollisionAfterAge || sawUpdate || sawProbeAfterClear {
		o.NT("")
	}
	return nil
}

func genTTCase(t *rapid.T, maxOps int, sizes []int) ttCase {
	c := ttCase{InitSize: rapid.SampledFrom(sizes).Draw(t, "init")}
	size := c.InitSize
	// small set of slots so that index collisions dominate; tags make keys differ above any capacity
	nslots := rapid.IntRange(1, 4).Draw(t, "nslots")
	slots := make([]uint64, nslots)
	for i := range slots {
		// slots over the whole index range of every table size used (2^26 entries at 1 GB, 2^27 at 2 GB), biased
		// to the ends of the power-of-two blocks: the first and last slots of a table and of its halves /
		// 32nd parts (the ageing goroutines work on such blocks)
		switch rapid.IntRange(0, 3).Draw(t, "slotKind") {
		case 0:
			slots[i] = rapid.Uint64Range(0, 1<<16-1).Draw(t, "slot")
		case 1:
			slots[i] = rapid.Uint64Range(0, 1<<28-1).Draw(t, "slotAny")
		default:
			k := uint(rapid.IntRange(10, 27).Draw(t, "slotExp"))
			d := rapid.Uint64Range(0, 3).Draw(t, "slotOff")
			if rapid.Bool().Draw(t, "below") {
				slots[i] = 1<<k - 1 - d
			} else {
				slots[i] = 1<<k + d
			}
			// odd multiples: the upper half / upper 32nd parts of larger tables
			slots[i] |= rapid.Uint64Range(0, 31).Draw(t, "block") << 22
		}
	}
	genKey := func() uint64 {
		s := slots[rapid.IntRange(0, nslots-1).Draw(t, "si")]
		tag := rapid.Uint64Range(0, 5).Draw(t, "tag")
		k := s | tag<<40 // bits above the largest index mask used here (2^22 entries at 64 MB; 2^25 at 512 MB)
		if k == 0 {
			k = 1 << 40 // key 0 is the implementation's empty-slot sentinel (probability 2^-64 for a Zobrist key)
		}
		return k
	}
	n := rapid.IntRange(1, maxOps).Draw(t, "n")
	for i := 0; i < n; i++ {
		switch rapid.SampledFrom([]string{"put", "put", "put", "put", "probe", "probe", "get", "age", "clear", "resize"}).Draw(t, "op") {
		case "put":
			v := rapid.IntRange(-10000, 10000).Draw(t, "value")
			if rapid.IntRange(0, 3).Draw(t, "mate") == 0 {
				v = rapid.SampledFrom([]int{10000, -10000, 9999, -9999, 9872, -9872, 9871, -9871, 9900, -9900}).Draw(t, "mv")
			}
			mv := uint32(rapid.IntRange(1, 65535).Draw(t, "move"))
			if rapid.IntRange(0, 4).Draw(t, "nomove") == 0 {
				mv = 0
			}
			c.Ops = append(c.Ops, ttOp{Op: "put", Key: genKey(), Move: mv, Value: v, Depth: rapid.IntRange(0, 127).Draw(t, "depth") % rapid.SampledFrom([]int{4, 4, 128}).Draw(t, "dmod"), Type: rapid.IntRange(0, 3).Draw(t, "type")})
		case "probe":
			c.Ops = append(c.Ops, ttOp{Op: "probe", Key: genKey()})
		case "get":
			c.Ops = append(c.Ops, ttOp{Op: "get", Key: genKey()})
		case "age":
			c.Ops = append(c.Ops, ttOp{Op: "age"})
		case "clear":
			if rapid.IntRange(0, 2).Draw(t, "doClear") == 0 {
				c.Ops = append(c.Ops, ttOp{Op: "clear"})
			}
		case "resize":
			if rapid.IntRange(0, 3).Draw(t, "doResize") == 0 {
				size = rapid.SampledFrom(sizes).Draw(t, "size")
				c.Ops = append(c.Ops, ttOp{Op: "resize", Size: size})
			}
		}
	}
	_ = size
	return c
}

func TestC11(t *testing.T) {
	r := hx.NewRec(t, "C11")
	defer r.Finish()
	recC11 = r
	r.Assume("key 0 is excluded (the implementation's empty-slot sentinel; a Zobrist key is 0 with probability 2^-64)")
	r.Assume("values in [-10000, 10000] (the storable range), depths 0..127, sizes 0..64 MB, a few cases at 512 MB - 1 GB (thorough: up to 4 GB); a lookup miss is always allowed by the statement")
	r.Excluded("key==0 remapped", 0)
	if hx.FuzzCrasher(r, "FuzzC11", genFuzzC11, propC11) {
		return
	}

	small := []int{0, 1, 1, 1, 2, 3}
	hx.Sub(r, "machine-small", r.N(4000, 40000), func(t *rapid.T) ttCase { return genTTCase(t, 60, small) }, propC11)
	// all sizes: allocation dominates, fewer cases
	sizes := []int{0, 1, 2, 3, 5, 8, 16, 31, 32, 33, 64}
	hx.Sub(r, "machine-sizes", r.N(60, 600), func(t *rapid.T) ttCase { return genTTCase(t, 40, sizes) }, propC11)
	// large tables (the announced Hash range goes far beyond what the small machines use): few cases, on one
	// shard only - allocation is lazy, but ageing and clearing touch every entry
	largeSizes := []int{512, 1024}
	if !r.Quick() {
		largeSizes = []int{512, 1024, 2048, 4096}
	}
	if r.Shard == 0 {
		hx.Sub(r, "machine-large", r.N(8, 24), func(t *rapid.T) ttCase {
			return genTTCase(t, 80, largeSizes)
		}, propC11)
	}
}
