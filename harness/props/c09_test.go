package props

import (
	"fmt"
	"testing"

	"github.com/frankkopp/FrankyGo/internal/attacks"
	"github.com/frankkopp/FrankyGo/internal/position"
	"github.com/frankkopp/FrankyGo/internal/types"
	"github.com/frankkopp/FrankyGo/verifharness/hx"
	rc "github.com/frankkopp/FrankyGo/verifharness/refchess"
	"pgregory.net/rapid"
)

// ---------------------------------------------------------------------------
// C09 — check / attack / legality predicates agree with the board.
// ---------------------------------------------------------------------------

// epVictim returns the square of the pawn that can be captured en passant by a pawn of
// colour byWhite (pseudo-legally: ep target set, byWhite is the side to move and has a
// pawn beside the pushed pawn), or -1.
func epVictim(p *rc.Pos, byWhite bool) int {
	if p.EP < 0 || p.White != byWhite {
		return -1
	}
	vict := p.EP - 8
	capt := byte('P')
	if !byWhite {
		vict = p.EP + 8
		capt = 'p'
	}
	f := rc.FileOf(vict)
	for _, df := range []int{-1, 1} {
		if f+df >= 0 && f+df < 8 && p.B[vict+df] == capt {
			return vict
		}
	}
	return -1
}

func guardBool(sig string, what string, f func() bool) (res bool, fail *hx.Failure) {
	fail = hx.Guard(sig, func() *hx.Failure { res = f(); return nil })
	if fail != nil {
		fail.Msg = what + ": " + fail.Msg
	}
	return
}

func propC09(pl hx.Playout, o *hx.Obs) *hx.Failure {
	poss, moves := pl.Replay()
	ep := hx.NewPos(pl.Start)
	for i := range poss {
		if f := checkPredicates(ep, &poss[i], o); f != nil {
			return f
		}
		if i < len(moves) {
			ep.DoMove(hx.ToEngine(moves[i]))
		}
	}
	return nil
}

func checkPredicates(ep *position.Position, rp *rc.Pos, o *hx.Obs) *hx.Failure {
	fen := rp.FEN()
	labels := hx.Classify(rp)
	for _, l := range labels {
		o.Label(l)
	}
	if hx.NonTrivialPos(labels) {
		o.NTKey(rp.FEN4())
	}
	// in-check test (twice: the second answer comes from the cache)
	want := rp.InCheck(rp.White)
	for k := 0; k < 2; k++ {
		if got := ep.HasCheck(); got != want {
			return hx.Failf("C09/has-check", "%s: HasCheck()=%v (call %d), king attacked=%v", fen, got, k+1, want)
		}
	}
	o.Evals(1)
	// attackers-of / is-attacked for every square and both colours
	for _, byWhite := range []bool{true, false} {
		col := types.Black
		if byWhite {
			col = types.White
		}
		vict := epVictim(rp, byWhite)
		for sq := 0; sq < 64; sq++ {
			wantSet := rp.Attackers(sq, byWhite)
			wantAtt := wantSet != 0
			if sq == rp.EP && vict >= 0 {
				wantSet |= 1 << uint(vict) // convention 2: the capturable pawn is marked on the ep target square
			}
			if sq == vict {
				wantAtt = true // convention 1: a pawn that can be captured en passant counts as attacked
			}
			var gotSet types.Bitboard
			if f := hx.Guard("C09/attacks-to", func() *hx.Failure { gotSet = attacks.AttacksTo(ep, types.Square(sq), col); return nil }); f != nil {
				f.Msg = fmt.Sprintf("%s: AttacksTo(%s,%s): %s", fen, rc.SqName(sq), col.String(), f.Msg)
				return f
			}
			if uint64(gotSet) != wantSet {
				sig := "C09/attacks-to/wrong-set"
				if rp.EP >= 0 && sq == rp.EP {
					sig = "C09/attacks-to/ep-target-square"
				}
				return hx.Failf(sig, "%s: AttacksTo(%s, by %s)=%016x, rules (+ep convention) %016x", fen, rc.SqName(sq), col.String(), uint64(gotSet), wantSet)
			}
			got, f := guardBool("C09/is-attacked", fmt.Sprintf("%s: IsAttacked(%s,%s)", fen, rc.SqName(sq), col.String()), func() bool { return ep.IsAttacked(types.Square(sq), col) })
			if f != nil {
				if rp.EP >= 0 && (rc.FileOf(rp.EP) == 0 || rc.FileOf(rp.EP) == 7) {
					f.Sig = "C09/is-attacked/panic/ep-edge-file"
				}
				return f
			}
			if got != wantAtt {
				sig := "C09/is-attacked/wrong-answer"
				if rp.EP >= 0 && (sq == vict || sq == rp.EP-8 || sq == rp.EP+8) {
					sig = "C09/is-attacked/ep-pawn"
				}
				return hx.Failf(sig, "%s: IsAttacked(%s, by %s)=%v, rules (+ep convention) %v", fen, rc.SqName(sq), col.String(), got, wantAtt)
			}
		}
	}
	o.Evals(256)
	// gives-check and the two legality tests for every pseudo-legal move
	key := uint64(ep.ZobristKey())
	for _, m := range rp.PseudoLegal() {
		em := hx.ToEngine(m)
		n := rp.Make(m)
		legal := rp.IsLegal(m)
		cl := moveClass(rp, m)
		wantGC := n.InCheck(n.White)
		// illegal king moves are skipped: a king stepping next to the enemy king would "give check" by the
		// letter of the rule predicate although no caller can act on such a move
		if legal || rc.Upper(rp.B[m.From]) != 'K' {
			if got := ep.GivesCheck(em); got != wantGC {
				sig := "C09/gives-check/" + kindName(m)
				if !legal {
					sig = "C09/gives-check-illegal-move/" + kindName(m)
				}
				return hx.Failf(sig, "%s: GivesCheck(%s)=%v, opponent in check after the move=%v (move legal=%v)", fen, m.UCI(true), got, wantGC, legal)
			}
		}
		pre := ep.IsLegalMove(em)
		if uint64(ep.ZobristKey()) != key {
			return hx.Failf("C09/is-legal-move/changes-position", "%s: IsLegalMove(%s) left the position changed", fen, m.UCI(true))
		}
		ep.DoMove(em)
		post := ep.WasLegalMove()
		ep.UndoMove()
		if pre != legal || post != legal {
			return hx.Failf("C09/legality/"+kindName(m), "%s: move %s: IsLegalMove=%v, DoMove+WasLegalMove=%v, rules=%v", fen, m.UCI(true), pre, post, legal)
		}
		o.Evals(3)
		if cl == "castling" || cl == "en-passant" || m.Kind == rc.Promotion || !legal || wantGC {
			o.NTKey(fen + m.UCI(true))
		}
		if !legal {
			o.Label("illegal-pseudo-legal-move")
		}
		if wantGC && legal {
			o.Label("checking-move")
		}
	}
	return nil
}

func kindName(m rc.Move) string {
	return map[int]string{rc.Normal: "normal", rc.Promotion: "promotion", rc.EnPassant: "en-passant", rc.Castling: "castling"}[m.Kind]
}

func TestC09(t *testing.T) {
	r := hx.NewRec(t, "C09")
	defer r.Finish()
	r.Assume("ep conventions as stated: on the ep target square the capturable pawn is marked for the side that may capture (ep target set, side to move, own pawn beside the pushed pawn); that pawn counts as attacked by that side")
	r.Assume("GivesCheck is compared for all pseudo-legal moves except illegal king moves; legality tests are compared for all pseudo-legal moves")

	hx.Sub(r, "positions", r.N(12000, 60000), func(t *rapid.T) hx.Playout {
		p := hx.GenPosition(t)
		return hx.Playout{Start: p.FEN()}
	}, propC09)

	hx.Sub(r, "playout", r.N(600, 3000), func(t *rapid.T) hx.Playout {
		return hx.GenPlayout(t, r.N(50, 120), 1)
	}, propC09)

	// forced presence of ep targets on every file incl. a and h, both colours
	hx.Sub(r, "ep-files", r.N(5000, 25000), func(t *rapid.T) hx.Playout {
		p := hx.GenConstructed(t, 10)
		// put a just-pushed pawn with a potential capturer beside it
		file := rapid.IntRange(0, 7).Draw(t, "file")
		if rapid.IntRange(0, 2).Draw(t, "edge") == 0 {
			file = []int{0, 7}[rapid.IntRange(0, 1).Draw(t, "which")]
		}
		q := p
		q.EP = -1
		var vict, target, origin int
		var pushed, capt byte
		if q.White {
			vict, target, origin, pushed, capt = rc.Sq(file, 4), rc.Sq(file, 5), rc.Sq(file, 6), 'p', 'P'
		} else {
			vict, target, origin, pushed, capt = rc.Sq(file, 3), rc.Sq(file, 2), rc.Sq(file, 1), 'P', 'p'
		}
		for _, sq := range []int{vict, target, origin} {
			if rc.Upper(q.B[sq]) == 'K' {
				return hx.Playout{Start: p.FEN()}
			}
			q.B[sq] = 0
		}
		q.B[vict] = pushed
		side := rapid.IntRange(-1, 1).Draw(t, "capturerSide")
		for _, df := range []int{-1, 1} {
			if (side == 0 || side == df) && file+df >= 0 && file+df < 8 && rc.Upper(q.B[vict+df]) != 'K' {
				q.B[vict+df] = capt
			}
		}
		q.EP = target
		q.Half = 0
		q.Castle = [4]bool{}
		if q.Validate() != nil {
			return hx.Playout{Start: p.FEN()}
		}
		return hx.Playout{Start: q.FEN()}
	}, propC09)
}
