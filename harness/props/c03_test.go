package props

import (
	"fmt"
	"testing"

	"github.com/frankkopp/FrankyGo/internal/evaluator"
	"github.com/frankkopp/FrankyGo/internal/movegen"
	"github.com/frankkopp/FrankyGo/internal/position"
	"github.com/frankkopp/FrankyGo/verifharness/hx"
	rc "github.com/frankkopp/FrankyGo/verifharness/refchess"
	"pgregory.net/rapid"
)

// ---------------------------------------------------------------------------
// C03 — undo (and null-move undo) restores everything observable.
// ---------------------------------------------------------------------------

// fullSnap is hx.Snapshot plus the observables that depend on history / caches.
type fullSnap struct {
	S        hx.Snapshot
	HasCheck bool
	LastMove uint32
	LastCapt byte
	Rep1     bool
	Rep2     bool
	Eval     int
}

func takeFull(p *position.Position, ev *evaluator.Evaluator) fullSnap {
	return fullSnap{S: hx.Snap(p), HasCheck: p.HasCheck(), LastMove: uint32(p.LastMove()), LastCapt: hx.PieceLetter(p.LastCapturedPiece()),
		Rep1: p.CheckRepetitions(1), Rep2: p.CheckRepetitions(2), Eval: int(ev.Evaluate(p))}
}

func (a fullSnap) diff(b fullSnap) (field, msg string) {
	if d := a.S.Diff(b.S); d != "" {
		return a.S.DiffField(b.S), d
	}
	switch {
	case a.HasCheck != b.HasCheck:
		return "hasCheck", fmt.Sprintf("HasCheck %v vs %v", a.HasCheck, b.HasCheck)
	case a.LastMove != b.LastMove:
		return "lastMove", fmt.Sprintf("LastMove %d vs %d", a.LastMove, b.LastMove)
	case a.LastCapt != b.LastCapt:
		return "lastCapturedPiece", fmt.Sprintf("LastCapturedPiece %q vs %q", a.LastCapt, b.LastCapt)
	case a.Rep1 != b.Rep1 || a.Rep2 != b.Rep2:
		return "repetitions", fmt.Sprintf("CheckRepetitions(1,2) %v,%v vs %v,%v", a.Rep1, a.Rep2, b.Rep1, b.Rep2)
	case a.Eval != b.Eval:
		return "evaluation", fmt.Sprintf("Evaluate %d vs %d", a.Eval, b.Eval)
	}
	return "", ""
}

// step of a do/undo history: Op is "do" (Move set), "null" or "undo".
type step struct {
	Op   string `json:"op"`
	Move string `json:"move,omitempty"`
}

type undoCase struct {
	Start string `json:"start_fen"`
	Steps []step `json:"steps"`
}

// refNull is the reference null move: side flips, ep target cleared.
func refNull(p rc.Pos) rc.Pos {
	n := p
	n.White = !p.White
	n.EP = -1
	if !p.White {
		n.Full++
	}
	return n
}

func genUndoCase(t *rapid.T, maxSteps, maxDepth int) undoCase {
	p := hx.GenStart(t, 14)
	c := undoCase{Start: p.FEN()}
	type frame struct {
		pos  rc.Pos
		null bool
	}
	stack := []frame{}
	cur := p
	n := rapid.IntRange(1, maxSteps).Draw(t, "steps")
	for i := 0; i < n; i++ {
		legal := cur.Legal()
		rc.SortMoves(legal)
		// weights: do 5, null 1, undo 3
		var ops []string
		if len(legal) > 0 && len(stack) < maxDepth {
			ops = append(ops, "do", "do", "do", "do", "do")
			if !cur.InCheck(cur.White) {
				ops = append(ops, "null")
			}
		}
		if len(stack) > 0 {
			ops = append(ops, "undo", "undo", "undo")
		}
		if len(ops) == 0 {
			break
		}
		switch ops[rapid.IntRange(0, len(ops)-1).Draw(t, "op")] {
		case "do":
			m := hx.PickMove(t, &cur, legal, 1)
			c.Steps = append(c.Steps, step{Op: "do", Move: m.UCI(true)})
			stack = append(stack, frame{cur, false})
			cur = cur.Make(m)
		case "null":
			c.Steps = append(c.Steps, step{Op: "null"})
			stack = append(stack, frame{cur, true})
			cur = refNull(cur)
		case "undo":
			c.Steps = append(c.Steps, step{Op: "undo"})
			cur = stack[len(stack)-1].pos
			stack = stack[:len(stack)-1]
		}
	}
	return c
}

func propC03(c undoCase, o *hx.Obs) *hx.Failure {
	rp := rc.MustParse(c.Start)
	ep := hx.NewPos(c.Start)
	ev := evaluator.NewEvaluator()
	type frame struct {
		snap  fullSnap
		pos   rc.Pos
		null  bool
		class string
		what  string
	}
	var stack []frame
	undo := func() *hx.Failure {
		fr := stack[len(stack)-1]
		stack = stack[:len(stack)-1]
		if fr.null {
			ep.UndoNullMove()
		} else {
			ep.UndoMove()
		}
		rp = fr.pos
		o.Evals(1)
		after := takeFull(ep, ev)
		if field, msg := fr.snap.diff(after); field != "" {
			kind := "move"
			if fr.null {
				kind = "nullmove"
			}
			return hx.Failf("C03/undo-"+kind+"/"+field, "after undo of %s (class %q, nesting %d) on %s: %s", fr.what, fr.class, len(stack)+1, fr.pos.FEN(), msg)
		}
		if fr.class != "" && fr.class != "capture" && fr.class != "double-push" || fr.null || len(stack) >= 10 {
			o.NTKey(fr.pos.FEN() + fr.what)
		}
		return nil
	}
	maxDepth := 0
	for _, s := range c.Steps {
		switch s.Op {
		case "do":
			m, ok := rp.FindUCI(s.Move)
			if !ok {
				return nil // not a legal continuation (can happen only in hand-edited replays)
			}
			cl := moveClass(&rp, m)
			if cl != "" {
				o.Label("undo:" + cl)
			}
			stack = append(stack, frame{takeFull(ep, ev), rp, false, cl, s.Move})
			ep.DoMove(hx.ToEngine(m))
			rp = rp.Make(m)
		case "null":
			if rp.InCheck(rp.White) {
				return nil
			}
			o.Label("undo:null-move")
			stack = append(stack, frame{takeFull(ep, ev), rp, true, "null", "null move"})
			ep.DoNullMove()
			rp = refNull(rp)
		case "undo":
			if len(stack) == 0 {
				continue
			}
			if f := undo(); f != nil {
				return f
			}
		}
		if len(stack) > maxDepth {
			maxDepth = len(stack)
		}
	}
	for len(stack) > 0 {
		if f := undo(); f != nil {
			return f
		}
	}
	o.Label(fmt.Sprintf("nesting>=%d", maxDepth/10*10))
	return nil
}

// propC03DFS does and undoes every legal move depth plies deep below the position and
// additionally checks that the engine's own do/undo users (legal move generation, the
// pre-move legality test, HasLegalMove) leave the position unchanged.
func propC03DFS(c treeCase, o *hx.Obs) *hx.Failure {
	rp := rc.MustParse(c.Fen)
	ep := hx.NewPos(c.Fen)
	ev := evaluator.NewEvaluator()
	mg := movegen.NewMoveGen()
	var walk func(rp *rc.Pos, d int) *hx.Failure
	walk = func(rp *rc.Pos, d int) *hx.Failure {
		before := takeFull(ep, ev)
		mg.GenerateLegalMoves(ep, movegen.GenAll)
		mg.HasLegalMove(ep)
		o.Evals(1)
		if field, msg := before.diff(takeFull(ep, ev)); field != "" {
			return hx.Failf("C03/generate-legal-moves/"+field, "GenerateLegalMoves/HasLegalMove (internal do+undo of every pseudo-legal move) changed %s: %s", rp.FEN(), msg)
		}
		if d == 0 {
			return nil
		}
		for _, m := range rp.Legal() {
			n := rp.Make(m)
			cl := moveClass(rp, m)
			ep.DoMove(hx.ToEngine(m))
			f := walk(&n, d-1)
			ep.UndoMove()
			if f != nil {
				return f
			}
			o.Evals(1)
			if field, msg := before.diff(takeFull(ep, ev)); field != "" {
				return hx.Failf("C03/undo-move/"+field, "after do+undo of %s (class %q) on %s: %s", m.UCI(true), cl, rp.FEN(), msg)
			}
			if cl != "" && cl != "capture" && cl != "double-push" {
				o.NTKey(rp.FEN() + m.UCI(true))
			}
		}
		return nil
	}
	return walk(&rp, c.Depth)
}

func TestC03(t *testing.T) {
	r := hx.NewRec(t, "C03")
	defer r.Finish()
	r.Assume("properly nested do/undo as a depth-first search performs them; null move only when not in check (the search's own precondition); <= 512 plies")
	if hx.FuzzCrasher(r, "FuzzC03", genFuzzC03, propC03) {
		return
	}

	hx.Sub(r, "machine", r.N(4000, 12000), func(t *rapid.T) undoCase {
		return genUndoCase(t, r.N(80, 300), r.N(60, 120))
	}, propC03)

	hx.Sub(r, "deep", r.N(40, 200), func(t *rapid.T) undoCase {
		// deep nesting: long do-only line (unwound completely by the property)
		pl := hx.GenPlayoutFrom(t, rc.MustParse(rc.StartFEN), 0, 0)
		pos := rc.MustParse(rc.StartFEN)
		c := undoCase{Start: pl.Start}
		limit := rapid.IntRange(200, 500).Draw(t, "limit")
		for len(c.Steps) < limit {
			legal := pos.Legal()
			if len(legal) == 0 {
				break
			}
			rc.SortMoves(legal)
			if !pos.InCheck(pos.White) && rapid.IntRange(0, 9).Draw(t, "null") == 0 {
				c.Steps = append(c.Steps, step{Op: "null"})
				pos = refNull(pos)
				continue
			}
			m := hx.PickMove(t, &pos, legal, 2)
			c.Steps = append(c.Steps, step{Op: "do", Move: m.UCI(true)})
			pos = pos.Make(m)
		}
		return c
	}, propC03)

	hx.Sub(r, "dfs", r.N(1500, 8000), func(t *rapid.T) treeCase {
		p := hx.GenPosition(t)
		return treeCase{Fen: p.FEN(), Depth: rapid.IntRange(1, 2).Draw(t, "depth")}
	}, propC03DFS)
}
