package props

import (
	"fmt"
	"testing"
	"time"

	"github.com/frankkopp/FrankyGo/internal/config"
	"github.com/frankkopp/FrankyGo/internal/position"
	"github.com/frankkopp/FrankyGo/internal/search"
	"github.com/frankkopp/FrankyGo/internal/types"
	"github.com/frankkopp/FrankyGo/verifharness/hx"
	rc "github.com/frankkopp/FrankyGo/verifharness/refchess"
	"pgregory.net/rapid"
)

// ---------------------------------------------------------------------------
// C07 — mate and stalemate are scored only where there is really no legal move.
// Uses the verif hook search.VerifTerminalHook (called at every classification site).
// ---------------------------------------------------------------------------

type c07Case struct {
	Play     hx.Playout     `json:"history"`
	Settings hx.SettingsVec `json:"settings"`
	Depth    int            `json:"depth"`
	Nodes    int            `json:"nodes"`
}

var pruningSwitches = []string{"UseFP", "UseQFP", "UseLmp", "UseLmr", "UseNullMove", "UseRazoring", "UseRFP"}

type classification struct {
	fen  string
	mate bool
}

func propC07(c c07Case, o *hx.Obs) *hx.Failure {
	save := config.Settings
	defer func() { config.Settings = save }()
	c.Settings.Apply()

	poss, moves := c.Play.Replay()
	ep := hx.NewPos(c.Play.Start)
	for _, m := range moves {
		ep.DoMove(hx.ToEngine(m))
	}
	root := poss[len(poss)-1]
	var calls []classification
	search.VerifTerminalHook = func(p *position.Position, mate bool) {
		calls = append(calls, classification{p.StringFen(), mate})
	}
	defer func() { search.VerifTerminalHook = nil }()

	s := search.NewSearch()
	d := &hx.Driver{}
	s.SetUciHandler(d)
	lim := hx.LimSpec{Mode: "depth", Depth: c.Depth, Nodes: c.Nodes, StopAfterMs: -1, PonderHitAfterMs: -1}
	out := hx.RunSearch(s, d, ep, &root, lim, 60*time.Second)
	ctx := fmt.Sprintf("search depth %d nodes %d on %s settings {%s}", c.Depth, c.Nodes, root.FEN(), c.Settings.String())
	if out.Slow {
		o.Label("slow-search-stopped-by-harness(inconclusive)")
		return nil
	}
	if out.Hung {
		return hx.Failf("C07/hang", "%s: search did not end", ctx)
	}
	o.Evals(1 + len(calls))
	// every classification must be a position without legal moves; mate <=> in check
	cache := map[string][2]bool{}
	for _, cl := range calls {
		v, ok := cache[cl.fen]
		if !ok {
			p, err := rc.ParseFEN(cl.fen)
			if err != nil {
				return hx.Failf("C07/hook/bad-fen", "%s: hook passed unparsable FEN %q", ctx, cl.fen)
			}
			v = [2]bool{len(p.Legal()) > 0, p.InCheck(p.White)}
			cache[cl.fen] = v
		}
		kind := "stalemate"
		if cl.mate {
			kind = "mate"
		}
		if v[0] {
			p := rc.MustParse(cl.fen)
			return hx.Failf("C07/scored-"+kind+"-with-legal-moves", "%s: node %s was scored as %s but has legal moves (%s)", ctx, cl.fen, kind, hx.JoinMoves(p.Legal()))
		}
		if cl.mate != v[1] {
			return hx.Failf("C07/"+kind+"-vs-check", "%s: node %s scored as %s but in-check=%v", ctx, cl.fen, kind, v[1])
		}
	}
	// no classification site without the hook
	if got := int(out.Stats.Checkmates + out.Stats.Stalemates); got != len(calls) {
		return hx.Failf("C07/hook-coverage", "%s: statistics count %d mates+stalemates, hook saw %d", ctx, got, len(calls))
	}
	// converse: terminal roots
	if len(root.Legal()) == 0 {
		want := types.ValueDraw
		kind := "stalemate"
		if root.InCheck(root.White) {
			want = -types.ValueCheckMate
			kind = "mate"
		}
		o.Label("terminal-root:" + kind)
		o.NTKey("terminal|" + root.FEN() + c.Settings.String())
		if out.Result.BestValue != want {
			return hx.Failf("C07/terminal-root/"+kind, "%s: root has no legal move (%s) but the search reports value %d, want %d", ctx, kind, out.Result.BestValue, want)
		}
		if out.Result.BestMove != types.MoveNone {
			return hx.Failf("C07/terminal-root/has-move", "%s: root has no legal move but best move %s", ctx, out.Result.BestMove.StringUci())
		}
		return nil
	}
	pruned := out.Stats.FpPrunings + out.Stats.QFpPrunings + out.Stats.LmpCuts + out.Stats.LmrReductions + out.Stats.NullMoveCuts + out.Stats.RfpPrunings
	if len(calls) > 0 {
		o.Label("search-with-classifications")
	}
	if pruned > 0 {
		o.Label("search-with-forward-pruning")
	}
	if out.Stats.FpPrunings > 0 {
		o.Label("futility-pruning-active")
	}
	if len(calls) > 0 && pruned > 0 {
		o.NTKey(root.FEN() + c.Settings.String())
	}
	return nil
}

func genC07(t *rapid.T, maxDepth int) c07Case {
	c := c07Case{Settings: hx.SettingsVec{}}
	if rapid.IntRange(0, 2).Draw(t, "nonDefault") != 0 {
		for _, n := range pruningSwitches {
			c.Settings[n] = rapid.IntRange(0, 1).Draw(t, n)
		}
	}
	var p rc.Pos
	switch rapid.IntRange(0, 6).Draw(t, "src") {
	case 5: // a position one ply before a forced reply (only legal moves: ep evasion / interposing double step / promotion / <= 2 moves)
		fc := hx.GenForced(t)
		c.Play = hx.Playout{Start: fc.Fen}
		if fc.Pred != "" && rapid.IntRange(0, 3).Draw(t, "fromPred") != 0 {
			c.Play = hx.Playout{Start: fc.Pred}
			if rapid.Bool().Draw(t, "played") {
				c.Play.Moves = []string{fc.Move}
			}
		}
		c.Depth = rapid.IntRange(2, 4).Draw(t, "fdepth")
		c.Nodes = 40000
		return c
	case 6: // shuffle history: the tree meets second / third occurrences of positions
		p = hx.GenStart(t, 8)
		if pl, ok := hx.GenShuffleHistory(t, p, 3); ok {
			c.Play = pl
			c.Depth = rapid.IntRange(2, 4).Draw(t, "sdepth")
			c.Nodes = 40000
			return c
		}
	case 0:
		p = hx.GenConstructed(t, 5)
	case 1:
		p = hx.GenConstructed(t, 9)
	case 2:
		p = hx.GenConstructed(t, 14)
	default:
		p = rc.MustParse(hx.GenSeedFEN(t))
	}
	c.Play = hx.GenPlayoutFrom(t, p, 20, 1)
	c.Depth = rapid.IntRange(2, maxDepth).Draw(t, "depth")
	c.Nodes = 40000
	return c
}

func TestC07(t *testing.T) {
	r := hx.NewRec(t, "C07")
	defer r.Finish()
	r.Inflight(true)
	r.Assume("the verif hook is called at every site that scores a node as mate or stalemate; Statistics().Checkmates+Stalemates == number of hook calls is checked so that a site without hook cannot hide")
	hx.Sub(r, "searches", r.N(2500, 12000), func(t *rapid.T) c07Case { return genC07(t, r.N(6, 8)) }, propC07)

	// every position of the forced-reply pool as an INTERIOR node: its predecessor is searched under the default
	// configuration (all pruning on), deep enough that the forced node is searched with pruning below it
	hx.Enum(r, "forced-interior", false, func(yield func(c07Case) bool) {
		for i, fc := range hx.ForcedPool() {
			if fc.Pred == "" {
				continue
			}
			for _, d := range []int{3 + i%2, 5 + i%3} {
				if r.Quick() && d > 5 {
					d = 5
				}
				if !yield(c07Case{Play: hx.Playout{Start: fc.Pred}, Settings: hx.SettingsVec{}, Depth: d, Nodes: 30000}) {
					return
				}
			}
		}
	}, propC07)

	// stalemate-trick endings (near-stalemates with a pinned pawn several plies below the root; the two roots with
	// which a seeded change of round 5 was demonstrated, kept as regression cases) under the default configuration
	hx.Enum(r, "stalemate-trick-endings", false, func(yield func(c07Case) bool) {
		for _, f := range []string{"7k/7p/5K2/8/7R/8/8/4r3 b - - 0 1", "k1K5/p7/R7/8/8/8/8/n7 b - - 0 1", "K7/P7/5k2/8/7r/8/8/4R3 w - - 0 1", "K1k5/P7/r7/8/8/8/8/N7 w - - 0 1"} {
			for d := 4; d <= 7; d++ {
				if !yield(c07Case{Play: hx.Playout{Start: f}, Settings: hx.SettingsVec{}, Depth: d, Nodes: 200000}) {
					return
				}
			}
		}
	}, propC07)

	// converse: terminal roots (mates and stalemates from the corpus and found by playouts)
	hx.Sub(r, "terminal-roots", r.N(150, 1500), func(t *rapid.T) c07Case {
		// walk until a terminal position is hit
		for try := 0; try < 50; try++ {
			p := hx.GenStart(t, 6)
			pl := hx.Playout{Start: p.FEN()}
			for i := 0; i < 60; i++ {
				legal := p.Legal()
				if len(legal) == 0 {
					return c07Case{Play: pl, Settings: hx.SettingsVec{}, Depth: rapid.IntRange(1, 4).Draw(t, "depth"), Nodes: 20000}
				}
				rc.SortMoves(legal)
				// prefer mating / stalemating moves when available
				pick := legal[rapid.IntRange(0, len(legal)-1).Draw(t, "mv")]
				for _, m := range legal {
					n := p.Make(m)
					if len(n.Legal()) == 0 {
						pick = m
						break
					}
				}
				pl.Moves = append(pl.Moves, pick.UCI(true))
				p = p.Make(pick)
			}
		}
		return c07Case{Play: hx.Playout{Start: "7k/5Q2/6K1/8/8/8/8/8 b - - 0 1"}, Settings: hx.SettingsVec{}, Depth: 2, Nodes: 1000}
	}, propC07)
}
