package props

import (
	"fmt"
	"testing"

	"github.com/frankkopp/FrankyGo/internal/config"
	"github.com/frankkopp/FrankyGo/internal/evaluator"
	"github.com/frankkopp/FrankyGo/internal/position"
	"github.com/frankkopp/FrankyGo/verifharness/hx"
	rc "github.com/frankkopp/FrankyGo/verifharness/refchess"
	"pgregory.net/rapid"
)

// ---------------------------------------------------------------------------
// C15 — static evaluation is pure, colour-symmetric and zero for dead material.
// ---------------------------------------------------------------------------

type evalCase struct {
	Play     hx.Playout `json:"history"`
	Lazy     bool       `json:"eval_lazy"`
	AdvPiece bool       `json:"eval_adv_piece"`
	Mobility bool       `json:"eval_mobility"`
	Attacks  bool       `json:"eval_attacks"`
	KingEval bool       `json:"eval_king"`
}

func propC15(c evalCase, o *hx.Obs) *hx.Failure {
	save := config.Settings.Eval
	defer func() { config.Settings.Eval = save }()
	config.Settings.Eval.UseLazyEval = c.Lazy
	config.Settings.Eval.UseAdvancedPieceEval = c.AdvPiece
	config.Settings.Eval.UseMobility = c.Mobility
	config.Settings.Eval.UseAttacksInEval = c.Attacks
	config.Settings.Eval.UseKingEval = c.KingEval
	cfg := fmt.Sprintf("lazy=%v advPiece=%v mobility=%v", c.Lazy, c.AdvPiece, c.Mobility)
	if c.Attacks || c.KingEval {
		cfg += fmt.Sprintf(" attacks=%v kingEval=%v", c.Attacks, c.KingEval)
	}

	poss, moves := c.Play.Replay()
	ep := hx.NewPos(c.Play.Start)
	reused := evaluator.NewEvaluator()
	promos := 0
	for i := range poss {
		rp := &poss[i]
		fen := rp.FEN()
		o.Evals(1)
		before := hx.Snap(ep)
		v1 := int(reused.Evaluate(ep))
		if d := before.Diff(hx.Snap(ep)); d != "" {
			return hx.Failf("C15/modifies-position/"+before.DiffField(hx.Snap(ep)), "%s (%s): Evaluate changed the position: %s", fen, cfg, d)
		}
		if v2 := int(reused.Evaluate(ep)); v2 != v1 {
			return hx.Failf("C15/purity/second-call-differs", "%s (%s): %d then %d", fen, cfg, v1, v2)
		}
		if v3 := int(evaluator.NewEvaluator().Evaluate(ep)); v3 != v1 {
			return hx.Failf("C15/purity/evaluator-instance", "%s (%s): reused evaluator %d, fresh evaluator %d", fen, cfg, v1, v3)
		}
		fresh, err := position.NewPositionFen(ep.StringFen())
		if err != nil {
			return hx.Failf("C15/setup", "engine rejects its own FEN %q", ep.StringFen())
		}
		if v4 := int(evaluator.NewEvaluator().Evaluate(fresh)); v4 != v1 {
			if ep.GamePhase() != fresh.GamePhase() {
				return hx.Failf("C15/purity/game-phase-drift", "%s (%s) after %d plies from %s: %d as reached by play (game phase %d), %d set up from FEN (game phase %d)", fen, cfg, i, c.Play.Start, v1, ep.GamePhase(), v4, fresh.GamePhase())
			}
			return hx.Failf("C15/purity/history-dependent", "%s (%s) after %d plies from %s: %d as reached by play, %d set up from FEN", fen, cfg, i, c.Play.Start, v1, v4)
		}
		// after a do/undo excursion over every legal move
		for _, m := range rp.Legal() {
			ep.DoMove(hx.ToEngine(m))
			reused.Evaluate(ep)
			ep.UndoMove()
		}
		if v5 := int(reused.Evaluate(ep)); v5 != v1 {
			if ep.GamePhase() != fresh.GamePhase() {
				// the excursion itself drifted the game phase (listed known finding of C03): restore a clean position to go on
				f := hx.Failf("C15/purity/game-phase-drift", "%s (%s): %d before and %d after doing+undoing every legal move (game phase %d -> %d)", fen, cfg, v1, v5, fresh.GamePhase(), ep.GamePhase())
				if recC15 == nil || !recC15.KnownInline(f.Sig, f.Msg) {
					return f
				}
			} else {
				return hx.Failf("C15/purity/after-excursion", "%s (%s): %d before and %d after doing+undoing every legal move", fen, cfg, v1, v5)
			}
		}
		// colour symmetry (on clean positions set up from FEN, so that only the evaluation is compared)
		mp := rp.Mirror()
		vm := int(evaluator.NewEvaluator().Evaluate(hx.NewPos(mp.FEN())))
		vf := int(evaluator.NewEvaluator().Evaluate(fresh))
		if vm != vf {
			return hx.Failf("C15/symmetry", "%s evaluates %d, its colour mirror %s evaluates %d (%s)", fen, vf, mp.FEN(), vm, cfg)
		}
		if fresh.HasInsufficientMaterial() {
			o.Label("insufficient-material")
			if vf != 0 {
				return hx.Failf("C15/insufficient-material-nonzero", "%s: insufficient material but Evaluate=%d (%s)", fen, vf, cfg)
			}
		}
		if mp.FEN4() != rp.FEN4() && rp.PieceCount() >= 6 || promos > 0 {
			o.NTKey(fen + cfg)
		}
		if i < len(moves) {
			if moves[i].Kind == rc.Promotion {
				promos++
			}
			ep.DoMove(hx.ToEngine(moves[i]))
			// a drifted game phase (known finding) would make every later position differ: continue on a clean position
			if clean := hx.NewPos(poss[i+1].FEN()); clean.GamePhase() != ep.GamePhase() {
				f := hx.Failf("C15/purity/game-phase-drift", "%s + %s: game phase %d by play vs %d from FEN", fen, moves[i].UCI(true), ep.GamePhase(), clean.GamePhase())
				if recC15 == nil || !recC15.KnownInline(f.Sig, f.Msg) {
					return f
				}
				ep = clean
			}
		}
	}
	if promos > 0 {
		o.Label("history-with-promotion")
	}
	o.Label(cfg)
	return nil
}

var recC15 *hx.Rec

// genEvalCfg draws the evaluation switches: the three exposed over UCI and the two that only the configuration
// file can set (attack-based terms, king safety); half of the cases leave the latter two at their default (off).
func genEvalCfg(t *rapid.T, play hx.Playout) evalCase {
	c := evalCase{Play: play, Lazy: rapid.Bool().Draw(t, "lazy"), AdvPiece: rapid.Bool().Draw(t, "adv"), Mobility: rapid.IntRange(0, 2).Draw(t, "mob") == 0}
	if rapid.Bool().Draw(t, "file-only-switches") {
		c.Attacks = rapid.IntRange(0, 3).Draw(t, "attacks") != 0
		c.KingEval = rapid.IntRange(0, 3).Draw(t, "king") != 0
	}
	return c
}

func TestC15(t *testing.T) {
	r := hx.NewRec(t, "C15")
	defer r.Finish()
	recC15 = r
	r.Assume("evaluation settings: every boolean switch of the evaluation configuration that the evaluator reads (UCI options Eval_Lazy, Eval_AdvPiece, Eval_Mobility; configuration-file switches UseAttacksInEval, UseKingEval); weights at their defaults")
	r.Assume("mirror = ranks flipped, colours, castling rights, side to move and ep square swapped (refchess.Mirror)")

	gen := func(maxPlies int) func(t *rapid.T) evalCase {
		return func(t *rapid.T) evalCase {
			return genEvalCfg(t, hx.GenPlayout(t, maxPlies, 1))
		}
	}
	hx.Sub(r, "playout", r.N(2500, 8000), gen(r.N(40, 100)), propC15)
	hx.Sub(r, "positions", r.N(25000, 100000), func(t *rapid.T) evalCase {
		p := hx.GenPosition(t)
		return genEvalCfg(t, hx.Playout{Start: p.FEN()})
	}, propC15)
	hx.Sub(r, "material", r.N(10000, 50000), func(t *rapid.T) evalCase {
		p := genMaterial(t)
		return genEvalCfg(t, hx.Playout{Start: p.FEN()})
	}, propC15)
}
