package refchess

import (
	"os"
	"testing"
)

// Published perft values (chessprogramming.org "Perft Results").
type perftRow struct {
	fen   string
	depth int
	want  PerftCounts // zero fields other than Nodes are not compared unless detail==true
	detail bool
}

var perftTable = []perftRow{
	{StartFEN, 1, PerftCounts{Nodes: 20}, true},
	{StartFEN, 2, PerftCounts{Nodes: 400}, true},
	{StartFEN, 3, PerftCounts{Nodes: 8902, Captures: 34, Checks: 12}, true},
	{StartFEN, 4, PerftCounts{Nodes: 197281, Captures: 1576, Checks: 469, Mates: 8}, true},
	{StartFEN, 5, PerftCounts{Nodes: 4865609, Captures: 82719, EP: 258, Checks: 27351, Mates: 347}, true},
	{"r3k2r/p1ppqpb1/bn2pnp1/3PN3/1p2P3/2N2Q1p/PPPBBPPP/R3K2R w KQkq - 0 1", 1, PerftCounts{Nodes: 48, Captures: 8, Castles: 2}, true},
	{"r3k2r/p1ppqpb1/bn2pnp1/3PN3/1p2P3/2N2Q1p/PPPBBPPP/R3K2R w KQkq - 0 1", 2, PerftCounts{Nodes: 2039, Captures: 351, EP: 1, Castles: 91, Checks: 3}, true},
	{"r3k2r/p1ppqpb1/bn2pnp1/3PN3/1p2P3/2N2Q1p/PPPBBPPP/R3K2R w KQkq - 0 1", 3, PerftCounts{Nodes: 97862, Captures: 17102, EP: 45, Castles: 3162, Checks: 993, Mates: 1}, true},
	{"r3k2r/p1ppqpb1/bn2pnp1/3PN3/1p2P3/2N2Q1p/PPPBBPPP/R3K2R w KQkq - 0 1", 4, PerftCounts{Nodes: 4085603, Captures: 757163, EP: 1929, Castles: 128013, Promotions: 15172, Checks: 25523, Mates: 43}, true},
	{"8/2p5/3p4/KP5r/1R3p1k/8/4P1P1/8 w - - 0 1", 1, PerftCounts{Nodes: 14, Captures: 1, Checks: 2}, true},
	{"8/2p5/3p4/KP5r/1R3p1k/8/4P1P1/8 w - - 0 1", 2, PerftCounts{Nodes: 191, Captures: 14, Checks: 10}, true},
	{"8/2p5/3p4/KP5r/1R3p1k/8/4P1P1/8 w - - 0 1", 3, PerftCounts{Nodes: 2812, Captures: 209, EP: 2, Checks: 267}, true},
	{"8/2p5/3p4/KP5r/1R3p1k/8/4P1P1/8 w - - 0 1", 4, PerftCounts{Nodes: 43238, Captures: 3348, EP: 123, Checks: 1680, Mates: 17}, true},
	{"8/2p5/3p4/KP5r/1R3p1k/8/4P1P1/8 w - - 0 1", 5, PerftCounts{Nodes: 674624, Captures: 52051, EP: 1165, Checks: 52950}, true},
	{"r3k2r/Pppp1ppp/1b3nbN/nP6/BBP1P3/q4N2/Pp1P2PP/R2Q1RK1 w kq - 0 1", 1, PerftCounts{Nodes: 6}, false},
	{"r3k2r/Pppp1ppp/1b3nbN/nP6/BBP1P3/q4N2/Pp1P2PP/R2Q1RK1 w kq - 0 1", 2, PerftCounts{Nodes: 264, Captures: 87, Castles: 6, Promotions: 48, Checks: 10}, true},
	{"r3k2r/Pppp1ppp/1b3nbN/nP6/BBP1P3/q4N2/Pp1P2PP/R2Q1RK1 w kq - 0 1", 3, PerftCounts{Nodes: 9467, Captures: 1021, EP: 4, Promotions: 120, Checks: 38, Mates: 22}, true},
	{"r3k2r/Pppp1ppp/1b3nbN/nP6/BBP1P3/q4N2/Pp1P2PP/R2Q1RK1 w kq - 0 1", 4, PerftCounts{Nodes: 422333, Captures: 131393, Castles: 7795, Promotions: 60032, Checks: 15492, Mates: 5}, true},
	// mirrored pos4
	{"r2q1rk1/pP1p2pp/Q4n2/bbp1p3/Np6/1B3NBn/pPPP1PPP/R3K2R b KQ - 0 1", 3, PerftCounts{Nodes: 9467}, false},
	{"rnbq1k1r/pp1Pbppp/2p5/8/2B5/8/PPP1NnPP/RNBQK2R w KQ - 1 8", 1, PerftCounts{Nodes: 44}, false},
	{"rnbq1k1r/pp1Pbppp/2p5/8/2B5/8/PPP1NnPP/RNBQK2R w KQ - 1 8", 2, PerftCounts{Nodes: 1486}, false},
	{"rnbq1k1r/pp1Pbppp/2p5/8/2B5/8/PPP1NnPP/RNBQK2R w KQ - 1 8", 3, PerftCounts{Nodes: 62379}, false},
	{"rnbq1k1r/pp1Pbppp/2p5/8/2B5/8/PPP1NnPP/RNBQK2R w KQ - 1 8", 4, PerftCounts{Nodes: 2103487}, false},
	{"r4rk1/1pp1qppp/p1np1n2/2b1p1B1/2B1P1b1/P1NP1N2/1PP1QPPP/R4RK1 w - - 0 10", 1, PerftCounts{Nodes: 46}, false},
	{"r4rk1/1pp1qppp/p1np1n2/2b1p1B1/2B1P1b1/P1NP1N2/1PP1QPPP/R4RK1 w - - 0 10", 2, PerftCounts{Nodes: 2079}, false},
	{"r4rk1/1pp1qppp/p1np1n2/2b1p1B1/2B1P1b1/P1NP1N2/1PP1QPPP/R4RK1 w - - 0 10", 3, PerftCounts{Nodes: 89890}, false},
	{"r4rk1/1pp1qppp/p1np1n2/2b1p1B1/2B1P1b1/P1NP1N2/1PP1QPPP/R4RK1 w - - 0 10", 4, PerftCounts{Nodes: 3894594}, false},
}

// SelfTest validates the oracle against the published table up to maxNodes per row.
func selfTest(maxNodes int64) error {
	for _, r := range perftTable {
		if r.want.Nodes > maxNodes {
			continue
		}
		p := MustParse(r.fen)
		if err := p.Validate(); err != nil {
			return err
		}
		var c PerftCounts
		p.PerftDetail(r.depth, &c)
		if c.Nodes != r.want.Nodes || p.Perft(r.depth) != r.want.Nodes {
			return &perftErr{r.fen, r.depth, c, r.want}
		}
		if r.detail && c != r.want {
			return &perftErr{r.fen, r.depth, c, r.want}
		}
	}
	return nil
}

type perftErr struct {
	fen      string
	d        int
	got, want PerftCounts
}

func (e *perftErr) Error() string {
	return "refchess perft mismatch " + e.fen
}

func TestOraclePerft(t *testing.T) {
	max := int64(700000)
	if os.Getenv("VERIF_TIER") == "thorough" {
		max = 5000000
	}
	if err := selfTest(max); err != nil {
		if pe, ok := err.(*perftErr); ok {
			t.Fatalf("%s d=%d got %+v want %+v", pe.fen, pe.d, pe.got, pe.want)
		}
		t.Fatal(err)
	}
}

func TestSANRoundTrip(t *testing.T) {
	// every legal move's SAN must denote exactly that move
	for _, r := range perftTable {
		p := MustParse(r.fen)
		var walk func(p Pos, d int)
		walk = func(p Pos, d int) {
			for _, m := range p.Legal() {
				for _, o := range []SANOpt{{}, {NoCapture: true}, {NoCheck: true}, {NoPromoEq: true}, {OverDisambi: 2}} {
					s := p.SAN(m, o)
					ms, ok := p.DenoteSAN(s)
					if !ok || len(ms) != 1 || ms[0] != m {
						t.Fatalf("%s: SAN %q of %v denotes %v", p.FEN(), s, m, ms)
					}
				}
				if d > 1 {
					walk(p.Make(m), d-1)
				}
			}
		}
		walk(p, 2)
	}
}

func TestFENRoundTrip(t *testing.T) {
	for _, r := range perftTable {
		p := MustParse(r.fen)
		if p.FEN() != r.fen {
			t.Fatalf("fen %q -> %q", r.fen, p.FEN())
		}
		m := p.Mirror()
		mm := m.Mirror()
		if mm.FEN() != p.FEN() {
			t.Fatalf("mirror twice %q -> %q", p.FEN(), mm.FEN())
		}
		if m.Perft(2) != p.Perft(2) {
			t.Fatalf("mirror perft differs %q", p.FEN())
		}
	}
}
