// Package refchess is a deliberately naive, value-semantics chess rules
// implementation written from the FIDE laws / FEN+PGN specs.  It is the
// trusted oracle of the verification harness and imports nothing from the
// engine under test.  8x8 mailbox, ray walking, legality by make-and-test.
//
// Square index: a1=0, b1=1 ... h1=7, a2=8 ... h8=63  (rank*8+file).
package refchess

import (
	"errors"
	"fmt"
	"sort"
	"strconv"
	"strings"
)

// Move kinds.
const (
	Normal = iota
	Promotion
	EnPassant
	Castling
)

// Move is a chess move.  Promo is one of 'N','B','R','Q' (upper case) or 0.
type Move struct {
	From, To int
	Kind     int
	Promo    byte
}

// Pos is a chess position.  B holds FEN piece letters or 0 for empty.
type Pos struct {
	B      [64]byte
	White  bool    // side to move
	Castle [4]bool // K Q k q
	EP     int     // -1 or ep target square
	Half   int
	Full   int
}

const StartFEN = "rnbqkbnr/pppppppp/8/8/8/8/PPPPPPPP/RNBQKBNR w KQkq - 0 1"

func Sq(file, rank int) int { return rank*8 + file }
func FileOf(sq int) int     { return sq & 7 }
func RankOf(sq int) int     { return sq >> 3 }

func SqName(sq int) string {
	if sq < 0 || sq > 63 {
		return "-"
	}
	return string([]byte{byte('a' + FileOf(sq)), byte('1' + RankOf(sq))})
}

func ParseSq(s string) int {
	if len(s) != 2 || s[0] < 'a' || s[0] > 'h' || s[1] < '1' || s[1] > '8' {
		return -1
	}
	return Sq(int(s[0]-'a'), int(s[1]-'1'))
}

func IsWhite(pc byte) bool { return pc >= 'A' && pc <= 'Z' }
func IsBlack(pc byte) bool { return pc >= 'a' && pc <= 'z' }
func Upper(pc byte) byte {
	if pc >= 'a' && pc <= 'z' {
		return pc - 32
	}
	return pc
}
func colored(pt byte, white bool) byte {
	if white {
		return Upper(pt)
	}
	return Upper(pt) + 32
}

// own reports whether pc belongs to the side `white`.
func own(pc byte, white bool) bool {
	if pc == 0 {
		return false
	}
	return IsWhite(pc) == white
}

// ParseFEN parses a FEN strictly (all structural rules of the FEN standard for the
// placement; fields 2..6 optional with the defaults "w - - 0 1").  It does not
// check chess legality of the position (see Validate).
func ParseFEN(fen string) (Pos, error) {
	var p Pos
	p.EP = -1
	p.White = true
	p.Full = 1
	f := strings.Fields(fen)
	if len(f) == 0 {
		return p, errors.New("empty fen")
	}
	if len(f) > 6 {
		return p, errors.New("too many fields")
	}
	ranks := strings.Split(f[0], "/")
	if len(ranks) != 8 {
		return p, errors.New("need 8 ranks")
	}
	for i, rs := range ranks {
		rank := 7 - i
		file := 0
		prevDigit := false
		for _, c := range []byte(rs) {
			switch {
			case c >= '1' && c <= '8':
				if prevDigit {
					return p, errors.New("two digits in a row")
				}
				prevDigit = true
				file += int(c - '0')
			case strings.IndexByte("pnbrqkPNBRQK", c) >= 0:
				prevDigit = false
				if file > 7 {
					return p, errors.New("rank too long")
				}
				p.B[Sq(file, rank)] = c
				file++
			default:
				return p, fmt.Errorf("bad char %q", c)
			}
			if file > 8 {
				return p, errors.New("rank too long")
			}
		}
		if file != 8 {
			return p, errors.New("rank too short")
		}
	}
	if len(f) >= 2 {
		switch f[1] {
		case "w":
			p.White = true
		case "b":
			p.White = false
		default:
			return p, errors.New("bad side")
		}
	}
	if len(f) >= 3 {
		if f[2] != "-" {
			if f[2] == "" {
				return p, errors.New("bad castling")
			}
			last := -1
			for _, c := range []byte(f[2]) {
				i := strings.IndexByte("KQkq", c)
				if i < 0 || i <= last {
					return p, errors.New("bad castling")
				}
				last = i
				p.Castle[i] = true
			}
		}
	}
	if len(f) >= 4 {
		if f[3] != "-" {
			sq := ParseSq(f[3])
			if sq < 0 {
				return p, errors.New("bad ep")
			}
			p.EP = sq
		}
	}
	if len(f) >= 5 {
		n, err := strconv.Atoi(f[4])
		if err != nil || n < 0 {
			return p, errors.New("bad halfmove clock")
		}
		p.Half = n
	}
	if len(f) >= 6 {
		n, err := strconv.Atoi(f[5])
		if err != nil || n < 0 {
			return p, errors.New("bad fullmove number")
		}
		if n == 0 {
			n = 1
		}
		p.Full = n
	}
	return p, nil
}

// MustParse panics on error (harness-internal use with known-good FENs).
func MustParse(fen string) Pos {
	p, err := ParseFEN(fen)
	if err != nil {
		panic("refchess: bad fen " + fen + ": " + err.Error())
	}
	return p
}

// Validate checks that p is a legal chess position in the sense of property C01:
// one king per side, no pawns on rank 1/8, side not to move not in check, castling
// rights consistent with king/rook home squares, en-passant target consistent
// (empty target on rank 3/6 as seen from the mover, pushed pawn in front of it,
// empty origin square behind it).
func (p *Pos) Validate() error {
	wk, bk := 0, 0
	for sq, pc := range p.B {
		switch pc {
		case 'K':
			wk++
		case 'k':
			bk++
		case 'P', 'p':
			if RankOf(sq) == 0 || RankOf(sq) == 7 {
				return errors.New("pawn on back rank")
			}
		}
	}
	if wk != 1 || bk != 1 {
		return errors.New("need exactly one king per side")
	}
	if p.InCheck(!p.White) {
		return errors.New("side not to move is in check")
	}
	if p.Castle[0] && !(p.B[4] == 'K' && p.B[7] == 'R') {
		return errors.New("K right inconsistent")
	}
	if p.Castle[1] && !(p.B[4] == 'K' && p.B[0] == 'R') {
		return errors.New("Q right inconsistent")
	}
	if p.Castle[2] && !(p.B[60] == 'k' && p.B[63] == 'r') {
		return errors.New("k right inconsistent")
	}
	if p.Castle[3] && !(p.B[60] == 'k' && p.B[56] == 'r') {
		return errors.New("q right inconsistent")
	}
	if p.EP >= 0 {
		if p.White {
			if RankOf(p.EP) != 5 || p.B[p.EP] != 0 || p.B[p.EP-8] != 'p' || p.B[p.EP+8] != 0 {
				return errors.New("ep inconsistent")
			}
		} else {
			if RankOf(p.EP) != 2 || p.B[p.EP] != 0 || p.B[p.EP+8] != 'P' || p.B[p.EP-8] != 0 {
				return errors.New("ep inconsistent")
			}
		}
	}
	return nil
}

// Placement returns FEN field 1.
func (p *Pos) Placement() string {
	var sb strings.Builder
	for rank := 7; rank >= 0; rank-- {
		empty := 0
		for file := 0; file < 8; file++ {
			pc := p.B[Sq(file, rank)]
			if pc == 0 {
				empty++
				continue
			}
			if empty > 0 {
				sb.WriteByte(byte('0' + empty))
				empty = 0
			}
			sb.WriteByte(pc)
		}
		if empty > 0 {
			sb.WriteByte(byte('0' + empty))
		}
		if rank > 0 {
			sb.WriteByte('/')
		}
	}
	return sb.String()
}

func (p *Pos) CastleStr() string {
	s := ""
	for i, c := range "KQkq" {
		if p.Castle[i] {
			s += string(c)
		}
	}
	if s == "" {
		return "-"
	}
	return s
}

func (p *Pos) SideStr() string {
	if p.White {
		return "w"
	}
	return "b"
}

// FEN returns the full six-field FEN.
func (p *Pos) FEN() string {
	return fmt.Sprintf("%s %s %s %s %d %d", p.Placement(), p.SideStr(), p.CastleStr(), SqName(p.EP), p.Half, p.Full)
}

// FEN4 returns the four position-defining fields.
func (p *Pos) FEN4() string {
	return fmt.Sprintf("%s %s %s %s", p.Placement(), p.SideStr(), p.CastleStr(), SqName(p.EP))
}

// RepSig is the repetition signature as stated in property C10: placement, side,
// castling rights and en-passant field.
func (p *Pos) RepSig() string { return p.FEN4() }

var knightD = [8][2]int{{1, 2}, {2, 1}, {2, -1}, {1, -2}, {-1, -2}, {-2, -1}, {-2, 1}, {-1, 2}}
var kingD = [8][2]int{{1, 0}, {1, 1}, {0, 1}, {-1, 1}, {-1, 0}, {-1, -1}, {0, -1}, {1, -1}}
var rookD = [4][2]int{{1, 0}, {-1, 0}, {0, 1}, {0, -1}}
var bishopD = [4][2]int{{1, 1}, {1, -1}, {-1, 1}, {-1, -1}}

func onBoard(f, r int) bool { return f >= 0 && f < 8 && r >= 0 && r < 8 }

// Attackers returns the set (bit i = square i) of pieces of colour byWhite that
// attack sq according to the rules (pawns attack diagonally forward; sliders
// along free lines; the occupant of sq is irrelevant).  No en-passant conventions.
func (p *Pos) Attackers(sq int, byWhite bool) uint64 {
	var set uint64
	f, r := FileOf(sq), RankOf(sq)
	// pawns: a white pawn on (f±1, r-1) attacks (f,r)
	dr := -1
	pawn := byte('P')
	if !byWhite {
		dr = 1
		pawn = 'p'
	}
	for _, df := range []int{-1, 1} {
		if onBoard(f+df, r+dr) && p.B[Sq(f+df, r+dr)] == pawn {
			set |= 1 << uint(Sq(f+df, r+dr))
		}
	}
	for _, d := range knightD {
		if onBoard(f+d[0], r+d[1]) && p.B[Sq(f+d[0], r+d[1])] == colored('N', byWhite) {
			set |= 1 << uint(Sq(f+d[0], r+d[1]))
		}
	}
	for _, d := range kingD {
		if onBoard(f+d[0], r+d[1]) && p.B[Sq(f+d[0], r+d[1])] == colored('K', byWhite) {
			set |= 1 << uint(Sq(f+d[0], r+d[1]))
		}
	}
	for _, d := range rookD {
		cf, cr := f+d[0], r+d[1]
		for onBoard(cf, cr) {
			pc := p.B[Sq(cf, cr)]
			if pc != 0 {
				if pc == colored('R', byWhite) || pc == colored('Q', byWhite) {
					set |= 1 << uint(Sq(cf, cr))
				}
				break
			}
			cf, cr = cf+d[0], cr+d[1]
		}
	}
	for _, d := range bishopD {
		cf, cr := f+d[0], r+d[1]
		for onBoard(cf, cr) {
			pc := p.B[Sq(cf, cr)]
			if pc != 0 {
				if pc == colored('B', byWhite) || pc == colored('Q', byWhite) {
					set |= 1 << uint(Sq(cf, cr))
				}
				break
			}
			cf, cr = cf+d[0], cr+d[1]
		}
	}
	return set
}

func (p *Pos) Attacked(sq int, byWhite bool) bool { return p.Attackers(sq, byWhite) != 0 }

// KingSq returns the king square of the colour or -1.
func (p *Pos) KingSq(white bool) int {
	k := colored('K', white)
	for sq, pc := range p.B {
		if pc == k {
			return sq
		}
	}
	return -1
}

// InCheck reports whether the king of colour white is attacked.
func (p *Pos) InCheck(white bool) bool {
	k := p.KingSq(white)
	if k < 0 {
		return false
	}
	return p.Attacked(k, !white)
}

// Checkers returns the set of enemy pieces attacking the mover's king.
func (p *Pos) Checkers() uint64 {
	k := p.KingSq(p.White)
	if k < 0 {
		return 0
	}
	return p.Attackers(k, !p.White)
}

func addPromos(ms []Move, from, to int) []Move {
	for _, pr := range []byte{'Q', 'R', 'B', 'N'} {
		ms = append(ms, Move{from, to, Promotion, pr})
	}
	return ms
}

// PseudoLegal generates all moves that obey piece movement rules, ignoring whether
// the own king is left in check; castling here requires only right + pieces on home
// squares + empty path (the attack conditions are applied in Legal).
func (p *Pos) PseudoLegal() []Move {
	var ms []Move
	w := p.White
	for from, pc := range p.B {
		if !own(pc, w) {
			continue
		}
		f, r := FileOf(from), RankOf(from)
		switch Upper(pc) {
		case 'P':
			dr, startRank, promoRank := 1, 1, 7
			if !w {
				dr, startRank, promoRank = -1, 6, 0
			}
			if onBoard(f, r+dr) && p.B[Sq(f, r+dr)] == 0 {
				to := Sq(f, r+dr)
				if r+dr == promoRank {
					ms = addPromos(ms, from, to)
				} else {
					ms = append(ms, Move{from, to, Normal, 0})
					if r == startRank && p.B[Sq(f, r+2*dr)] == 0 {
						ms = append(ms, Move{from, Sq(f, r+2*dr), Normal, 0})
					}
				}
			}
			for _, df := range []int{-1, 1} {
				if !onBoard(f+df, r+dr) {
					continue
				}
				to := Sq(f+df, r+dr)
				tp := p.B[to]
				if tp != 0 && !own(tp, w) {
					if r+dr == promoRank {
						ms = addPromos(ms, from, to)
					} else {
						ms = append(ms, Move{from, to, Normal, 0})
					}
				} else if tp == 0 && to == p.EP {
					// the pawn to be captured stands beside the capturing pawn
					vict := Sq(f+df, r)
					if p.B[vict] == colored('P', !w) {
						ms = append(ms, Move{from, to, EnPassant, 0})
					}
				}
			}
		case 'N':
			for _, d := range knightD {
				if onBoard(f+d[0], r+d[1]) {
					to := Sq(f+d[0], r+d[1])
					if !own(p.B[to], w) {
						ms = append(ms, Move{from, to, Normal, 0})
					}
				}
			}
		case 'K':
			for _, d := range kingD {
				if onBoard(f+d[0], r+d[1]) {
					to := Sq(f+d[0], r+d[1])
					if !own(p.B[to], w) {
						ms = append(ms, Move{from, to, Normal, 0})
					}
				}
			}
			// castling
			if w && from == 4 {
				if p.Castle[0] && p.B[7] == 'R' && p.B[5] == 0 && p.B[6] == 0 {
					ms = append(ms, Move{4, 6, Castling, 0})
				}
				if p.Castle[1] && p.B[0] == 'R' && p.B[1] == 0 && p.B[2] == 0 && p.B[3] == 0 {
					ms = append(ms, Move{4, 2, Castling, 0})
				}
			}
			if !w && from == 60 {
				if p.Castle[2] && p.B[63] == 'r' && p.B[61] == 0 && p.B[62] == 0 {
					ms = append(ms, Move{60, 62, Castling, 0})
				}
				if p.Castle[3] && p.B[56] == 'r' && p.B[57] == 0 && p.B[58] == 0 && p.B[59] == 0 {
					ms = append(ms, Move{60, 58, Castling, 0})
				}
			}
		default:
			var dirs [][2]int
			if Upper(pc) == 'R' || Upper(pc) == 'Q' {
				dirs = append(dirs, rookD[:]...)
			}
			if Upper(pc) == 'B' || Upper(pc) == 'Q' {
				dirs = append(dirs, bishopD[:]...)
			}
			for _, d := range dirs {
				cf, cr := f+d[0], r+d[1]
				for onBoard(cf, cr) {
					to := Sq(cf, cr)
					if p.B[to] == 0 {
						ms = append(ms, Move{from, to, Normal, 0})
					} else {
						if !own(p.B[to], w) {
							ms = append(ms, Move{from, to, Normal, 0})
						}
						break
					}
					cf, cr = cf+d[0], cr+d[1]
				}
			}
		}
	}
	return ms
}

// IsLegal decides the legality of a pseudo-legal move by the rules.
func (p *Pos) IsLegal(m Move) bool {
	w := p.White
	if m.Kind == Castling {
		// not out of, through or into check
		step := 1
		if m.To < m.From {
			step = -1
		}
		for sq := m.From; sq != m.To+step; sq += step {
			if p.Attacked(sq, !w) {
				return false
			}
		}
		return true
	}
	n := p.Make(m)
	return !n.InCheck(w)
}

// Legal returns the legal moves.
func (p *Pos) Legal() []Move {
	var out []Move
	for _, m := range p.PseudoLegal() {
		if p.IsLegal(m) {
			out = append(out, m)
		}
	}
	return out
}

// Make returns the successor position (the move is assumed pseudo-legal).
// IsLegalListed reports whether m is one of the legal moves of p (exact match incl. kind).
func (p *Pos) IsLegalListed(m Move) bool {
	for _, l := range p.Legal() {
		if l == m {
			return true
		}
	}
	return false
}

func (p *Pos) Make(m Move) Pos {
	n := *p
	w := p.White
	pc := p.B[m.From]
	captured := p.B[m.To]
	n.B[m.From] = 0
	n.B[m.To] = pc
	n.EP = -1
	switch m.Kind {
	case Promotion:
		n.B[m.To] = colored(m.Promo, w)
	case EnPassant:
		vict := Sq(FileOf(m.To), RankOf(m.From))
		captured = n.B[vict]
		n.B[vict] = 0
	case Castling:
		switch m.To {
		case 6:
			n.B[7], n.B[5] = 0, 'R'
		case 2:
			n.B[0], n.B[3] = 0, 'R'
		case 62:
			n.B[63], n.B[61] = 0, 'r'
		case 58:
			n.B[56], n.B[59] = 0, 'r'
		}
	}
	// castling rights: lost by king / rook moves and by captures on rook home squares
	touch := func(sq int) {
		switch sq {
		case 4:
			n.Castle[0], n.Castle[1] = false, false
		case 7:
			n.Castle[0] = false
		case 0:
			n.Castle[1] = false
		case 60:
			n.Castle[2], n.Castle[3] = false, false
		case 63:
			n.Castle[2] = false
		case 56:
			n.Castle[3] = false
		}
	}
	touch(m.From)
	touch(m.To)
	// ep target after every double pawn push
	if Upper(pc) == 'P' && abs(RankOf(m.To)-RankOf(m.From)) == 2 {
		n.EP = (m.From + m.To) / 2
	}
	if Upper(pc) == 'P' || captured != 0 {
		n.Half = 0
	} else {
		n.Half = p.Half + 1
	}
	if !w {
		n.Full = p.Full + 1
	}
	n.White = !w
	return n
}

func abs(x int) int {
	if x < 0 {
		return -x
	}
	return x
}

// Perft counts leaf nodes of the legal move tree of the given depth.
func (p *Pos) Perft(d int) int64 {
	if d == 0 {
		return 1
	}
	ms := p.Legal()
	if d == 1 {
		return int64(len(ms))
	}
	var n int64
	for _, m := range ms {
		c := p.Make(m)
		n += c.Perft(d - 1)
	}
	return n
}

// UCI returns the long algebraic string with upper-case promotion letter as the
// engine prints it (lower==true gives the standard lower-case letter).
func (m Move) UCI(lower bool) string {
	s := SqName(m.From) + SqName(m.To)
	if m.Kind == Promotion {
		if lower {
			s += string(m.Promo + 32)
		} else {
			s += string(m.Promo)
		}
	}
	return s
}

func (m Move) String() string { return m.UCI(true) }

// IsCapture reports whether m captures something in p.
func (p *Pos) IsCapture(m Move) bool {
	return m.Kind == EnPassant || (m.Kind != Castling && p.B[m.To] != 0)
}

// SAN options.
type SANOpt struct {
	NoCapture   bool // drop the 'x'
	NoCheck     bool // drop '+' / '#'
	NoPromoEq   bool // "e8Q" instead of "e8=Q"
	Suffix      string
	OverDisambi int // 0 minimal, 1 always file, 2 always file+rank (still valid SAN for parsers)
}

// SAN renders m (which must be legal in p) in standard algebraic notation with
// minimal disambiguation.
func (p *Pos) SAN(m Move, o SANOpt) string {
	var sb strings.Builder
	pc := Upper(p.B[m.From])
	if m.Kind == Castling {
		if FileOf(m.To) == 6 {
			sb.WriteString("O-O")
		} else {
			sb.WriteString("O-O-O")
		}
	} else {
		capt := p.IsCapture(m)
		if pc == 'P' {
			if capt {
				sb.WriteByte(byte('a' + FileOf(m.From)))
			}
		} else {
			sb.WriteByte(pc)
			// disambiguation among legal moves of the same piece type to the same square
			needFile, needRank, other := false, false, false
			for _, o := range p.Legal() {
				if o.From != m.From && o.To == m.To && Upper(p.B[o.From]) == pc && o.Kind != Castling {
					other = true
					if FileOf(o.From) == FileOf(m.From) {
						needRank = true
					}
					if RankOf(o.From) == RankOf(m.From) {
						needFile = true
					}
				}
			}
			file, rank := false, false
			if other {
				if !needRank {
					file = true // file alone distinguishes (no other on the same file)
				} else if !needFile {
					rank = true
				} else {
					file, rank = true, true
				}
			}
			if o.OverDisambi >= 1 {
				file = true
			}
			if o.OverDisambi >= 2 {
				rank = true
			}
			if file {
				sb.WriteByte(byte('a' + FileOf(m.From)))
			}
			if rank {
				sb.WriteByte(byte('1' + RankOf(m.From)))
			}
		}
		if capt && !o.NoCapture {
			sb.WriteByte('x')
		}
		sb.WriteString(SqName(m.To))
		if m.Kind == Promotion {
			if !o.NoPromoEq {
				sb.WriteByte('=')
			}
			sb.WriteByte(m.Promo)
		}
	}
	if !o.NoCheck {
		n := p.Make(m)
		if n.InCheck(n.White) {
			if len(n.Legal()) == 0 {
				sb.WriteByte('#')
			} else {
				sb.WriteByte('+')
			}
		}
	}
	sb.WriteString(o.Suffix)
	return sb.String()
}

// DenoteSAN returns the legal moves of p that the SAN string denotes.  The string
// is parsed independently: [piece][from-file][from-rank][x]dest[=][promo][decor].
// ok=false means the string is not of SAN shape at all.
func (p *Pos) DenoteSAN(s string) (ms []Move, ok bool) {
	s = strings.TrimRight(s, "+#!?")
	legal := p.Legal()
	if s == "O-O" || s == "O-O-O" {
		for _, m := range legal {
			if m.Kind == Castling && ((s == "O-O") == (FileOf(m.To) == 6)) {
				ms = append(ms, m)
			}
		}
		return ms, true
	}
	b := []byte(s)
	var piece byte = 'P'
	if len(b) > 0 && strings.IndexByte("NBRQK", b[0]) >= 0 {
		piece = b[0]
		b = b[1:]
	}
	var promo byte
	if n := len(b); n > 0 && strings.IndexByte("NBRQ", b[n-1]) >= 0 {
		promo = b[n-1]
		b = b[:n-1]
		if n := len(b); n > 0 && b[n-1] == '=' {
			b = b[:n-1]
		}
	}
	if len(b) < 2 {
		return nil, false
	}
	to := ParseSq(string(b[len(b)-2:]))
	if to < 0 {
		return nil, false
	}
	b = b[:len(b)-2]
	if n := len(b); n > 0 && b[n-1] == 'x' {
		b = b[:n-1]
	}
	ff, fr := -1, -1
	for _, c := range b {
		switch {
		case c >= 'a' && c <= 'h' && ff < 0 && fr < 0:
			ff = int(c - 'a')
		case c >= '1' && c <= '8' && fr < 0:
			fr = int(c - '1')
		default:
			return nil, false
		}
	}
	for _, m := range legal {
		if m.Kind == Castling || m.To != to || Upper(p.B[m.From]) != piece {
			continue
		}
		if ff >= 0 && FileOf(m.From) != ff {
			continue
		}
		if fr >= 0 && RankOf(m.From) != fr {
			continue
		}
		if (m.Kind == Promotion) != (promo != 0) {
			continue
		}
		if m.Kind == Promotion && m.Promo != promo {
			continue
		}
		ms = append(ms, m)
	}
	return ms, true
}

// Mirror flips the board vertically and swaps colours, castling rights, side to
// move and the en-passant square.
func (p *Pos) Mirror() Pos {
	var n Pos
	for sq, pc := range p.B {
		if pc == 0 {
			continue
		}
		msq := Sq(FileOf(sq), 7-RankOf(sq))
		if IsWhite(pc) {
			n.B[msq] = pc + 32
		} else {
			n.B[msq] = pc - 32
		}
	}
	n.White = !p.White
	n.Castle = [4]bool{p.Castle[2], p.Castle[3], p.Castle[0], p.Castle[1]}
	n.EP = -1
	if p.EP >= 0 {
		n.EP = Sq(FileOf(p.EP), 7-RankOf(p.EP))
	}
	n.Half = p.Half
	n.Full = p.Full
	return n
}

// MirrorMove mirrors a move vertically.
func MirrorMove(m Move) Move {
	return Move{Sq(FileOf(m.From), 7-RankOf(m.From)), Sq(FileOf(m.To), 7-RankOf(m.To)), m.Kind, m.Promo}
}

// SortMoves sorts moves canonically (for set comparison / deterministic indexing).
func SortMoves(ms []Move) {
	sort.Slice(ms, func(i, j int) bool {
		a, b := ms[i], ms[j]
		if a.From != b.From {
			return a.From < b.From
		}
		if a.To != b.To {
			return a.To < b.To
		}
		if a.Kind != b.Kind {
			return a.Kind < b.Kind
		}
		return a.Promo < b.Promo
	})
}

// FindUCI returns the legal move with the given (lower- or upper-case) UCI string.
func (p *Pos) FindUCI(s string) (Move, bool) {
	for _, m := range p.Legal() {
		if strings.EqualFold(m.UCI(true), s) {
			return m, true
		}
	}
	return Move{}, false
}

// PieceCount returns the number of pieces on the board.
func (p *Pos) PieceCount() int {
	n := 0
	for _, pc := range p.B {
		if pc != 0 {
			n++
		}
	}
	return n
}

// PerftDetail counts, for the legal tree of depth d, the leaf-move categories used
// in the published perft tables: nodes, captures, ep, castles, promotions, checks.
type PerftCounts struct{ Nodes, Captures, EP, Castles, Promotions, Checks, Mates int64 }

func (p *Pos) PerftDetail(d int, c *PerftCounts) {
	for _, m := range p.Legal() {
		n := p.Make(m)
		if d == 1 {
			c.Nodes++
			if p.IsCapture(m) {
				c.Captures++
			}
			switch m.Kind {
			case EnPassant:
				c.EP++
			case Castling:
				c.Castles++
			case Promotion:
				c.Promotions++
			}
			if n.InCheck(n.White) {
				c.Checks++
				if len(n.Legal()) == 0 {
					c.Mates++
				}
			}
		} else {
			n.PerftDetail(d-1, c)
		}
	}
}
