module github.com/frankkopp/FrankyGo/verifharness

go 1.23

require (
	github.com/frankkopp/FrankyGo v0.0.0
	pgregory.net/rapid v1.3.0
)

require (
	github.com/BurntSushi/toml v0.3.1 // indirect
	github.com/op/go-logging v0.0.0-20160315200505-970db520ece7 // indirect
	golang.org/x/sync v0.0.0-20200625203802-6e8e738ad208 // indirect
	golang.org/x/text v0.3.3 // indirect
)

replace github.com/frankkopp/FrankyGo => /repo
