#!/usr/bin/env python3
"""Sensitivity run: applies each hand-written mutant (tools/mutants/mutants.json) to the /repo working tree,
runs the quick check of its property, expects exit 1, reverts.  usage: tools/mutation_run.py [id-prefix ...]"""
import json, subprocess, sys, time, os
ROOT = os.path.dirname(os.path.dirname(os.path.abspath(__file__)))
# a scratch copy (tools/scratch_copy.sh) carries the path of its own repository worktree
REPO = open(os.path.join(ROOT, ".repo_dir")).read().strip() if os.path.exists(os.path.join(ROOT, ".repo_dir")) else "/repo"
ms = json.load(open(os.path.join(ROOT, "tools", "mutants", "mutants.json")))
sel = sys.argv[1:]
if subprocess.run(["git", "-C", REPO, "diff", "--quiet"]).returncode != 0:
    print("/repo has uncommitted changes"); sys.exit(2)
rows = []
for m in ms:
    if sel and not any(m["id"].startswith(s) for s in sel):
        continue
    path = os.path.join(REPO, m["file"])
    src = open(path).read()
    if src.count(m["old"]) != 1:
        rows.append((m["id"], m["property"], "NOT-APPLICABLE(old text count %d)" % src.count(m["old"]), 0, "")); continue
    open(path, "w").write(src.replace(m["old"], m["new"]))
    try:
        b = subprocess.run(["go", "build", "./..."], cwd=REPO, env=dict(os.environ, GOFLAGS="-mod=mod", GOPROXY="off"), capture_output=True, text=True)
        if b.returncode != 0:
            rows.append((m["id"], m["property"], "DOES-NOT-COMPILE", 0, b.stderr[:200])); continue
        t0 = time.time()
        p = subprocess.run(["./check", m["property"], "--tier", "quick"], cwd=ROOT, capture_output=True, text=True)
        dt = time.time() - t0
        sig = ""
        for line in p.stdout.splitlines():
            if line.startswith("  C") and "/" in line:
                sig = line.strip(); break
        rows.append((m["id"], m["property"], {0: "MISSED", 1: "caught", 2: "INFRA"}.get(p.returncode, str(p.returncode)), dt, sig))
    finally:
        subprocess.run(["git", "-C", REPO, "checkout", "--", "."])
    print("%-26s %-4s %-8s %6.1fs  %s" % rows[-1], flush=True)
with open(os.path.join(ROOT, "tools", "mutants", "results.md"), "a") as f:
    f.write("\n## run %s\n\n| mutant | property | result | seconds | first signature |\n|---|---|---|---|---|\n" % time.strftime("%Y-%m-%d %H:%M"))
    for r in rows:
        f.write("| %s | %s | %s | %.1f | %s |\n" % r)
