#!/bin/sh
# Creates an independent scratch copy of /verif (harness + driver) bound to its own worktree of /repo,
# for mutation / seeded-change runs that must not disturb /repo.   usage: tools/scratch_copy.sh /tmp/x
# Result: $1/verif (driver, harness with replace => $1/repo) and $1/repo (git worktree of /repo HEAD).
set -e
D=$1
[ -n "$D" ] || { echo "usage: $0 <dir>"; exit 2; }
rm -rf "$D/verif"; mkdir -p "$D"
[ -d "$D/repo" ] || git -C /repo worktree add -q --detach "$D/repo" HEAD
rsync -a --exclude .git --exclude 'harness/bin' --exclude 'harness/out' --exclude replays --exclude evidence /verif/ "$D/verif/"
mkdir -p "$D/verif/replays" "$D/verif/evidence"
sed -i "s#=> /repo#=> $D/repo#" "$D/verif/harness/go.mod"
echo "$D/repo" > "$D/verif/.repo_dir"
echo "scratch copy at $D"
