#!/bin/sh
# Runs the pinned baseline suite (hooks OFF) on a scratch worktree of /repo HEAD and compares with BASELINE.json's stable_pass list.
# usage: tools/baseline_run.sh [outfile]
set -e
OUT=${1:-/tmp/baseline_result.txt}
WT=/tmp/baseline_wt.$$
git -C /repo worktree add -q $WT HEAD
cd $WT
export GOFLAGS=-mod=mod GOPROXY=off GOSUMDB=off
go test -json -vet=off -count=1 -timeout 25m ./... > $WT.json 2>/dev/null || true
python3 - "$WT.json" > "$OUT" <<'PY'
import json,sys
res={}
for line in open(sys.argv[1]):
    try: e=json.loads(line)
    except Exception: continue
    if e.get("Test") and e.get("Action") in ("pass","fail","skip"):
        res[e["Package"]+"::"+e["Test"]]=e["Action"]
b=json.load(open("/root/.vp/BASELINE.json"))
bad=[t for t in b["stable_pass"] if res.get(t)!="pass"]
print("stable:",len(b["stable_pass"]),"passing now:",len(b["stable_pass"])-len(bad))
for t in bad: print("NOT PASSING:",t,res.get(t))
PY
cd /
git -C /repo worktree remove --force $WT
rm -f $WT.json
cat "$OUT"
