#!/bin/bash
# Verifies a seeded change delivered in /tmp/seed/<ID>/ (patch.diff + demo test) in a scratch worktree:
#   1. patch applies to /repo HEAD and builds   2. demo passes without and fails with the patch
#   3. (optional, arg 'suite') the pinned stable suite still passes with the patch
# usage: tools/seeded_verify.sh C05 <demo-test-path-relative-to-worktree> [suite]
set -u
ID=$1; DEMO=$2; SUITE=${3:-}
export GOFLAGS=-mod=mod GOPROXY=off GOSUMDB=off GOTOOLCHAIN=local
SRC=${SEED_ROOT:-/tmp/seed}/$ID
WT=/tmp/seedverify.$ID.$$
git -C /repo worktree add -q --detach $WT HEAD || exit 2
trap "git -C /repo worktree remove --force $WT" EXIT
cp "$SRC/$DEMO" "$WT/$DEMO" || { echo "RESULT demo-missing"; exit 2; }
PKG=./$(dirname $DEMO)
cd $WT
echo "--- demo on unchanged tree"
go test -vet=off -count=1 -run 'TestSeededDemo' $PKG > $WT.nopatch.log 2>&1; R0=$?
git apply $SRC/patch.diff || { echo "RESULT patch-does-not-apply"; exit 2; }
go build ./... || { echo "RESULT does-not-compile"; exit 2; }
go build -tags verif ./... || { echo "RESULT does-not-compile-with-tag"; exit 2; }
echo "--- demo with patch"
go test -vet=off -count=1 -run 'TestSeededDemo' $PKG > $WT.patch.log 2>&1; R1=$?
echo "demo: unchanged exit=$R0 patched exit=$R1"
tail -3 $WT.patch.log | cut -c1-300
rm -f $WT.nopatch.log $WT.patch.log
if [ "$SUITE" = "suite" ]; then
  rm -f "$WT/$DEMO"
  go test -json -vet=off -count=1 -timeout 25m ./... > $WT.json 2>/dev/null
  python3 - "$WT.json" <<'PY'
import json,sys
res={}
for line in open(sys.argv[1]):
    try: e=json.loads(line)
    except Exception: continue
    if e.get("Test") and e.get("Action") in ("pass","fail","skip"):
        res[e["Package"]+"::"+e["Test"]]=e["Action"]
b=json.load(open("/root/.vp/BASELINE.json"))
bad=[t for t in b["stable_pass"] if res.get(t)!="pass"]
print("suite: stable",len(b["stable_pass"]),"passing with patch",len(b["stable_pass"])-len(bad))
for t in bad: print("  NOT PASSING:",t,res.get(t))
PY
  rm -f $WT.json
fi
[ $R0 -eq 0 ] && [ $R1 -ne 0 ] && echo "RESULT demo-ok" || echo "RESULT demo-bad"
