#!/bin/bash
# Runs the pinned stable suite against one stored seeded change (scratch worktree) and records the result.
# usage: tools/seeded_suite.sh <name under /verif/seeded>
N=$1
export GOFLAGS=-mod=mod GOPROXY=off GOSUMDB=off
WT=/tmp/seedsuite.$N.$$
git -C /repo worktree add -q --detach $WT HEAD || exit 2
trap "git -C /repo worktree remove --force $WT; rm -f $WT.json" EXIT
git -C $WT apply /verif/seeded/$N/patch.diff || { echo "patch does not apply" > /verif/seeded/$N/suite_result.txt; exit 2; }
cd $WT && go test -json -vet=off -count=1 -timeout 40m ./... > $WT.json 2>/dev/null
python3 - "$WT.json" > /verif/seeded/$N/suite_result.txt <<'PY'
import json,sys
res={}
for line in open(sys.argv[1]):
    try: e=json.loads(line)
    except Exception: continue
    if e.get("Test") and e.get("Action") in ("pass","fail","skip"):
        res[e["Package"]+"::"+e["Test"]]=e["Action"]
b=json.load(open("/root/.vp/BASELINE.json"))
bad=[t for t in b["stable_pass"] if res.get(t)!="pass"]
print("pinned suite with this patch applied to /repo HEAD: %d of %d stable tests pass" % (len(b["stable_pass"])-len(bad), len(b["stable_pass"])))
for t in bad: print("  NOT PASSING:",t,res.get(t))
PY
cat /verif/seeded/$N/suite_result.txt | head -5
