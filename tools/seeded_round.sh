#!/bin/bash
# Round helper: verify a delivered seeded change and run the property's check against it (isolated).
# usage: SEED_ROOT=/tmp/seed2 tools/seeded_round.sh <ID> [tier] [seed]
ID=$1; TIER=${2:-quick}; SEED=${3:-1}
R=${SEED_ROOT:-/tmp/seed}
DEMO=$(cd $R/$ID && ls internal/*/seeded_demo_test.go cmd/*/seeded_demo_test.go 2>/dev/null | head -1)
echo "== $ID demo=$DEMO"
/verif/tools/seeded_verify.sh $ID $DEMO 2>&1 | tail -6
/verif/tools/seeded_check.sh $R/$ID/patch.diff $ID $TIER $SEED 2>&1 | tail -8
