#!/bin/bash
# usage: tools/seeded_store.sh <ID> <name> <demo-relative-path> "<needs>" "<what I ran / result>"
ID=$1; NAME=$2; DEMO=$3; NEEDS=$4; RAN=$5
D=/verif/seeded/$NAME
mkdir -p $D
cp ${SEED_ROOT:-/tmp/seed}/$ID/patch.diff $D/patch.diff
cp ${SEED_ROOT:-/tmp/seed}/$ID/$DEMO $D/$(basename $DEMO)
python3 - "$ID" "$NAME" "$DEMO" "$NEEDS" "$RAN" <<'PY'
import json,sys
ID,NAME,DEMO,NEEDS,RAN=sys.argv[1:6]
json.dump({"property":ID,"name":NAME,"demo_path_in_repo":DEMO,"demo_cmd":"go test -vet=off -count=1 -run TestSeededDemo ./"+DEMO.rsplit("/",1)[0]+"/",
 "needs_to_manifest":NEEDS,"verified":RAN,"origin":"written by an independent sub-agent that saw only the property text and a scratch worktree"},
 open("/verif/seeded/%s/meta.json"%NAME,"w"),indent=1)
PY
echo stored $D
