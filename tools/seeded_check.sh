#!/bin/bash
# Runs a check of /verif against a seeded change in an isolated scratch copy (does not touch /repo).
# usage: tools/seeded_check.sh <patch.diff> <ID> [tier] [seed]
set -u
P=$1; ID=$2; TIER=${3:-quick}; SEED=${4:-1}
D=/tmp/seedchk.$$
/verif/tools/scratch_copy.sh $D > /dev/null || exit 2
trap "git -C /repo worktree remove --force $D/repo; rm -rf $D" EXIT
# a stored change was written against an earlier HEAD: fall back to a three-way merge when later fix commits moved its context
git -C $D/repo apply $P 2>/dev/null || git -C $D/repo apply --3way $P >/dev/null 2>&1 || { echo "patch does not apply"; exit 2; }
cd $D/verif && VERIF_SEED=$SEED ./check $ID --tier $TIER | grep -v "^  check" | cut -c1-400 | head -12
echo "check-exit=${PIPESTATUS[0]}"
