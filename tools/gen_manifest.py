#!/usr/bin/env python3
"""Generates /verif/MANIFEST.json from the table below (keeps it schema-valid at all times)."""
import json, os
ROOT = os.path.dirname(os.path.dirname(os.path.abspath(__file__)))
ALL = ["C%02d" % i for i in range(1, 21)]

CLAIMED = {
 "C01": dict(level="exploration", technique="property-based testing (rapid) + exhaustive tree enumeration; differential oracle: independent rules implementation (refchess)",
   text="Generated-input search: the engine's legal move list is compared as a multiset (from,to,kind,promotion) with an independent naive rules implementation at every position of generated playouts (incrementally reached and re-created from FEN), on constructed legal positions, and at every node of exhaustive legal trees below ~500 seed positions; perft totals (batch and on-demand) are compared with the oracle count. No counterexample in N cases is what is claimed; the tree part is exhaustive below its roots to the stated depth.",
   note="Trusted base: refchess (validated in setup and in its own tests against the published perft tables with sub-counts to 4.8M nodes); legality domain as stated in the property; Go toolchain.", ref="DESIGN.md §2 C01"),
 "C02": dict(level="exploration", technique="property-based testing (rapid): generated move histories; differential oracle refchess.Make, field-by-field FEN and accessor comparison",
   text="After every DoMove of generated legal-move histories (drawn clocks/move numbers, both sides to move, up to the 512-ply capacity) and for all legal moves of generated positions, the engine's FEN and accessors are compared field by field with the independent rule-defined successor. Sampled search: no counterexample in N generated moves, with the histogram of special-move classes reported.",
   note="Trusted base: refchess.Make (ep target after every double push, as the engine's FEN documents); histories <= 512 plies.", ref="DESIGN.md §2 C02"),
 "C03": dict(level="exploration", technique="property-based testing (rapid), stateful: generated do/null/undo histories executed on the engine, invariant = snapshot equality before-do/after-undo",
   text="Generated properly nested do / null-move / undo histories (nesting to 500) and exhaustive do+undo of every legal move 1-2 plies below generated positions; a snapshot of every observable named in the property (FEN, key, bitboards, king squares, material, psq, game phase, check flag, last move/capture, repetition answers, insufficient material, static evaluation) taken before each do must be identical after the matching undo; the engine's own internal do/undo users (GenerateLegalMoves, HasLegalMove) must leave it unchanged.",
   note="Null moves only when not in check (search precondition); reference model only chooses legal moves, the oracle is the engine's own earlier snapshot.", ref="DESIGN.md §2 C03"),
 "C04": dict(level="exploration", technique="property-based testing (rapid): differential (incremental vs recomputed from FEN), sum-over-board oracle, metamorphic key equality/inequality pairs",
   text="Every position of generated histories (also after undo excursions) is compared with a fresh position built from its FEN and with sums of the published per-piece values over the board; keys must agree for all descriptions of the same position (other clocks, short FENs, ep FENs, repeated positions, permuted move orders) and differ for legal positions differing in one key component.",
   note="A 64-bit key collision between different positions would be reported as a violation (probability negligible at these case counts).", ref="DESIGN.md §2 C04"),
 "C18": dict(level="exploration", technique="exhaustive enumeration of finite table domains + rapid-drawn occupancies; oracle: geometric (file,rank) definitions",
   text="All line-occupancy subsets for all 64 squares (rook 2^14, bishop <=2^13 per square, each in 4 paddings) for rook/bishop/queen attacks, and all squares / pairs / directions / colours for the non-sliding tables, rays, in-between sets, masks, distances, castling rights by square and single-bit shifts are enumerated completely (exhaustive: true for those sub-checks); full-board shifts, bit helpers and deprecated line look-ups are sampled with drawn boards.",
   note="Geometric definitions are the harness' own ray-walking code; RotateR90/L90/R45/L45 are covered only through the deprecated look-ups.", ref="DESIGN.md §2 C18"),
 "C09": dict(level="exploration", technique="property-based testing (rapid): differential against reference attacker sets and make-and-test legality, all 64 squares x 2 colours x all pseudo-legal moves per generated position",
   text="For generated legal positions (constructed, seed corpus, playouts, forced en-passant targets on every file incl. a and h) every predicate call is compared with the independent oracle: HasCheck, AttacksTo and IsAttacked for all squares and colours (with exactly the two stated ep conventions added), GivesCheck, IsLegalMove and DoMove+WasLegalMove for all pseudo-legal moves; a panic is a violation.",
   note="ep conventions read as: capturable = ep target set, capturing side to move and has a pawn beside the pushed pawn (pseudo-legal). GivesCheck not compared for illegal king moves.", ref="DESIGN.md §2 C09"),
 "C10": dict(level="exploration", technique="property-based testing (rapid): model-based history check (occurrence counting over the game) + three-valued material oracle",
   text="Shuffle-biased generated game histories: after every ply CheckRepetitions(1|2|3) must equal (count of earlier same-signature positions >= n) and HalfMoveClock the reference clock; insufficient material is checked on generated material configurations (from FEN and reached by captures) in both directions for the classes the property names, unconstrained elsewhere.",
   note="Signature = placement, side, castling rights, ep field exactly as the property states; history starts at the given FEN.", ref="DESIGN.md §2 C10"),
 "C08": dict(level="exploration", technique="property-based testing (rapid), stateful: generated visit histories on one reused move generator; differential oracles (fresh batch generator, refchess pseudo-legal/legal sets)",
   text="One reused Movegen is driven through generated histories of visits (positions incl. >=30% in check, PV move from every stage class, member and foreign killers, history/counter-move tables with drawn and huge counters, reset or not, all three modes, batch or phased, full or abandoned iteration, UsePromNonQuiet both ways). Per visit the delivered multiset must equal the fresh batch list of the mode (no duplicates, nothing missing or extra), the phased generator must deliver a PV move of the set first, non-quiet + quiet must partition all, evasion output must be pseudo-legal, duplicate-free and omit only illegal moves, HasLegalMove must equal (legal list non-empty).",
   note="Generator discipline follows the real callers (reset before revisiting a position and whenever a PV is/was set; evasion flag = in check; batch calls between phased iterations). PV-first is checked for the phased generator only, as stated.", ref="DESIGN.md §2 C08"),
 "C11": dict(level="exploration", technique="property-based testing (rapid), stateful model-based: generated Put/Probe/GetEntry/AgeEntries/Clear/Resize histories against a reference slot model",
   text="Generated operation histories with keys constructed to collide in the index bits are run against the table and a small reference model; every lookup must return nothing or exactly the most recent entry written for that key (move, value over the whole storable range, depth, type), a colliding store may replace only if deeper or equally deep and aged, Len/Hashfull must equal the model's occupancy for the specified power-of-two capacity, and no operation may panic for any size 0-64 MB (512 MB in thorough).",
   note="Key 0 excluded (empty-slot sentinel). The statement allows a miss at any time; 'store into an empty slot or over the same key is retrievable immediately' is the one presence requirement added. One listed known finding (value of move-less entries) is tolerated inline and counted.", ref="DESIGN.md §2 C11"),
 "C15": dict(level="exploration", technique="property-based testing (rapid): metamorphic relations (colour mirror, fresh-vs-reached, repeated call, fresh-vs-reused evaluator, do/undo excursion) on generated positions and histories",
   text="For every position of generated histories, generated positions and material configurations under drawn evaluation settings (lazy / advanced piece / mobility), the evaluation must be identical on a second call, with a fresh evaluator, on a position set up from the FEN and after doing+undoing every legal move; the position snapshot must be unchanged by Evaluate; the colour-mirrored position must evaluate identically from the mover's view; insufficient material must evaluate to 0.",
   note="Mirror by refchess; the engine's own HasInsufficientMaterial decides the zero clause (its correctness is C10). Game-phase drift (listed C03/C15 finding) is tolerated inline and counted.", ref="DESIGN.md §2 C15"),
 "C17": dict(level="exploration", technique="property-based testing (rapid) with an independent SAN denotation oracle + exhaustive enumeration of the 65,536 move-field combinations",
   text="All legal moves of generated (disambiguation-rich and general) positions are rendered in SAN variants and UCI and parsed back; a string must yield exactly the one legal move it denotes and 'no move' when it denotes none or several (independent denotation oracle); illegal pseudo-legal moves and notations of other positions must be rejected; ValidateMove <=> legal. The packed encoding is checked exhaustively over all (from,to,type,promotion) combinations with boundary and drawn sort values and over the full value range for drawn moves.",
   note="Only well-formed SAN/UCI-shaped strings are generated; value range [ValueNA, ValueInf]; the combination encoding to MoveNone is excluded (SetValue documented as no-op).", ref="DESIGN.md §2 C17"),
 "C16": dict(level="exploration", technique="property-based testing (rapid) with structure-aware FEN / UCI-line mutators + coverage-guided native go fuzzing (thorough); semantic oracle (round-trip, consistency, liveness) inside the target",
   text="FEN: valid FENs of generated legal positions and 1-2 structural mutations of them (and raw coverage-guided fuzzing in the thorough tier) must yield an error or a well-formed position (consistent board/bitboards/kings/totals, one king per side) whose FEN output re-parses to an identical snapshot and on which the engine's own generators, predicates, evaluation and do/undo run without panic; legal positions must be accepted and print canonically. UCI: generated command-line sequences with injected faults must not panic any goroutine, the handler must still answer isready and hold the last validly set position.",
   note="Inputs whose only effect is resource exhaustion (Hash > 64 MB, perft > 4, deep searches without stop) are excluded by construction and counted.", ref="DESIGN.md §2 C16"),
 "C19": dict(level="exploration", technique="property-based testing (rapid): model-based (replay of legal prefixes) + metamorphic (three formats, GOMAXPROCS schedules) over generated game collections",
   text="Generated game collections (shared prefixes, duplicates, transpositions, injected illegal / unreadable tokens) are rendered in the three formats with plain, standard and hostile-but-legal PGN decorations and built under GOMAXPROCS 1/4/16; entry set and every visit count must equal the model, every offered move must be legal, link to the right entry and be offered once; a time-controlled search with the book enabled must return a legal book move.",
   note="Schedule coverage is by GOMAXPROCS variation and repetition (and the race detector in the thorough tier), not exhaustive over interleavings. Promotion games are excluded from the coordinate format; unreadable tokens only in SAN/PGN.", ref="DESIGN.md §2 C19"),
 "C20": dict(level="fault_enumeration", technique="fault injection with exhaustive enumeration of all crash points (every prefix length of the written cache file) + rapid-drawn corruptions; oracle: model of the source file, watchdog for termination",
   text="For generated books every prefix length of the written cache file (every crash point of the non-atomic save), plus missing / empty files and drawn bit flips, splices and garbage, is installed as the cache and a fresh initialisation (and a second one in the same process) must terminate without panic within the watchdog and yield exactly the book of the source file; a saved cache loaded back must equal the source-built book entry by entry.",
   note="Crash model: the file holds a prefix of a complete save. A corruption that still decodes as a different valid book is outside 'undecodable' and excluded (counted). A hang wedges the process (package-level mutex), so the worker exits and the driver confirms the in-flight case by replay.", ref="DESIGN.md §2 C20"),
 "C05": dict(level="exploration", technique="property-based testing (rapid): generated game lines x limit modes x switch vectors x stop timings, 1-4 consecutive searches per engine instance; oracle: refchess legality of best / ponder move and of every PV",
   text="Searches are run on generated game lines (repeated roots, half-move clocks up to 110) under every limit mode (depth, nodes, movetime, clock, infinite/ponder with generated stop / ponderhit timing) and drawn vectors over all search switches, several in a row on one instance so that hash and history tables carry over; every search must end within the watchdog, report exactly one result with a best move legal in the root, a ponder move legal after it, a final PV and per-iteration PVs that are playable legal sequences (final one starting with the best move), and leave the caller's position snapshot unchanged.",
   note="Depth <= 4-6 and 1 MB hash by cost; the 30 s watchdog on millisecond searches is the termination oracle. Roots have >= 1 legal move.", ref="DESIGN.md §2 C05"),
 "C06": dict(level="exploration", technique="property-based testing (rapid): differential against a plain negamax reference (no pruning) + metamorphic invariance across sound-switch combinations",
   text="With every unsound heuristic off, the root value of a depth-d search must equal a 25-line plain negamax over the oracle's legal moves with the engine's leaf evaluation and the stated terminal scores, and the best move must attain it, for 4 combinations (all off, all on, 2 drawn) of the 7 sound switches per case; with quiescence on the value must be identical across the combinations. Generators include mating/stalemating nets, repetition-prone histories and clocks 94-99.",
   note="The reference trusts DoMove/UndoMove/Evaluate/CheckRepetitions (decided by C02/C03/C10/C15). Trees in which the listed game-phase drift can occur are excluded by construction and counted. Depth <= 3-4.", ref="DESIGN.md §2 C06"),
 "C07": dict(level="exploration", technique="property-based testing (rapid) with an instrumentation hook (build tag verif): every mate/stalemate classification of generated searches is checked against refchess",
   text="Every node the search scores as mate or stalemate (hook at all classification sites, cross-checked against the statistics counters) must have no legal move by the oracle and be 'mate' exactly when in check, under the default configuration and drawn combinations of the pruning switches, depth 2-8; roots without legal moves must be reported as -mate / draw without a move.",
   note="Hook verif-tagged, add-only; a classification site without the hook would show as a counter mismatch.", ref="DESIGN.md §2 C07"),
 "C12": dict(level="exploration", technique="property-based testing (rapid): grammar-generated protocol sessions run through the real Loop() on pipes, trace invariants over time-stamped output; metamorphic fresh-vs-ucinewgame comparison",
   text="Generated protocol-valid sessions are executed against the real protocol loop; the time-stamped output must contain exactly one bestmove per go in order (none premature for infinite/ponder, none NoMove), a readyok for every isready within 5 s also during searches, a bestmove within 2 s after stop; the handler's position must equal the oracle's replay of the position command; the configuration print-out must change in exactly the named option's field; after warm-up searches and ucinewgame the (depth, score, pv) stream and bestmove of a fixed-depth search must equal those of a fresh engine.",
   note="Timing allowances are >= 100x the normal latencies. Scheduling is not controlled: interleavings are sampled by generated delays (0-30 ms, zero gaps) and repetition.", ref="DESIGN.md §2 C12"),
 "C13": dict(level="exploration", technique="property-based testing (rapid) + fixed grid over the time-budget function (verif wrapper); generated searches under depth / node / movetime / searchmoves limits",
   text="The time budget is computed for ~70k drawn and gridded parameter combinations (remaining 1 ms-3 h, increment up to 50x remaining, movestogo 0-80, all game phases, both colours) and must not exceed the remaining clock nor, repeated movestogo (or 15) times, the remaining time plus increments; depth-limited searches must complete exactly d iterations (1 for single-move roots), node-limited searches must stop within the overshoot allowance, movetime searches within movetime + 250 ms (re-confirmed), and with searchmoves (API and UCI line) the best move must be in the list.",
   note="Timing part is few, serial cases with a generous allowance; a regression smaller than the allowance is invisible.", ref="DESIGN.md §2 C13"),
 "C14": dict(level="exploration", technique="property-based testing (rapid), stateful: generated controller histories with schedule perturbation (injected delays at hooked lifecycle points, GOMAXPROCS) + the Go race detector as a monitor over the same histories",
   text="Generated controller histories over one Search (all lifecycle calls, start-while-running, restarts within the timer's 5 ms poll window) run with generated delays between calls and inside the run/timer goroutines under GOMAXPROCS 1/2/4/16; every call must return within the watchdog, results must equal accepted starts and each must be a legal move of its own search's position, infinite/ponder searches must not answer before stop/ponderhit, undisturbed depth-limited searches must complete all iterations. The same histories run in a -race build; every report of the race detector is a violation, identified by the unordered pair of innermost engine functions.",
   note="The Go scheduler is not controlled: interleavings are sampled, windows are widened by injected delays. 'Never deadlocks' is checked as 'no call exceeded 10 s in N histories'. Race reports that involve the process-wide logger set-up in a constructor (logging.GetLog) are a harness artefact (one engine per process in production) and are ignored.", ref="DESIGN.md §2 C14"),
}

NOT_YET = "check not built yet in this session (work in progress; see DESIGN.md)"

def main():
    checks = []
    for pid in ALL:
        if pid not in CLAIMED:
            continue
        c = CLAIMED[pid]
        checks.append({
            "property_id": pid,
            "quick_cmd": "./check %s --tier quick" % pid,
            "thorough_cmd": "./check %s --tier thorough" % pid,
            "evidence_file": "/verif/evidence/%s.json" % pid,
            "replay_cmd_template": "./check %s --replay {path}" % pid,
            "engine": "harness",
            "level_claimed": {"category": c["level"], "text": c["text"], "design_ref": c["ref"]},
            "level_note": c["note"],
            "technique": c["technique"],
        })
    man = {
        "version": 1,
        "setup_cmd": "./setup.sh",
        "hooks": {
            "guard": "verif",
            "enable": "go build tag: checks compile /repo through `go test -c -tags verif` of /verif/harness (replace github.com/frankkopp/FrankyGo => /repo)",
            "baseline_off_cmd": "cd /repo && GOFLAGS=-mod=mod GOPROXY=off go test -json -vet=off -count=1 -timeout 25m ./...",
            "source_commits": json.load(open(os.path.join(ROOT, "tools", "hook_commits.json"))) if os.path.exists(os.path.join(ROOT, "tools", "hook_commits.json")) else [],
            "add_only": True,
        },
        "engines": [{"name": "harness", "path": "/verif/harness", "serves_properties": sorted(CLAIMED), "kind_free_text": "Go module (rapid v1.3.0 property-based tests, native go fuzz targets, exhaustive enumerations) with an independent chess rules oracle; driven by /verif/check"}],
        "checks": checks,
        "notes": "All checks: ./check <ID> --tier quick|thorough; exit 0/1/2 = held / unlisted violation / infrastructure-inconclusive. Known findings: /verif/KNOWN_FINDINGS.txt.",
        "not_applicable": [{"property_id": p, "reason": NOT_YET} for p in ALL if p not in CLAIMED],
    }
    json.dump(man, open(os.path.join(ROOT, "MANIFEST.json"), "w"), indent=1)
    print("MANIFEST.json written:", len(checks), "checks")

if __name__ == "__main__":
    main()
