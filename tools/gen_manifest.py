#!/usr/bin/env python3
"""Generates /verif/MANIFEST.json from the table below (keeps it schema-valid at all times)."""
import json, os
ROOT = os.path.dirname(os.path.dirname(os.path.abspath(__file__)))
ALL = ["C%02d" % i for i in range(1, 21)]

CLAIMED = {
 "C01": dict(level="exploration", technique="property-based testing (rapid) + exhaustive tree enumeration; differential oracle: independent rules implementation (refchess)",
   text="Generated-input search: the engine's legal move list is compared as a multiset (from,to,kind,promotion) with an independent naive rules implementation at every position of generated playouts (incrementally reached and re-created from FEN), on constructed legal positions, and at every node of exhaustive legal trees below ~500 seed positions; perft totals (batch and on-demand) are compared with the oracle count. No counterexample in N cases is what is claimed; the tree part is exhaustive below its roots to the stated depth.",
   note="Trusted base: refchess (validated in setup and in its own tests against the published perft tables with sub-counts to 4.8M nodes); legality domain as stated in the property; Go toolchain.", ref="DESIGN.md §2 C01"),
}

NOT_YET = "check not built yet in this session (work in progress; see DESIGN.md)"

def main():
    checks = []
    for pid in ALL:
        if pid not in CLAIMED:
            continue
        c = CLAIMED[pid]
        checks.append({
            "property_id": pid,
            "quick_cmd": "./check %s --tier quick" % pid,
            "thorough_cmd": "./check %s --tier thorough" % pid,
            "evidence_file": "/verif/evidence/%s.json" % pid,
            "replay_cmd_template": "./check %s --replay {path}" % pid,
            "engine": "harness",
            "level_claimed": {"category": c["level"], "text": c["text"], "design_ref": c["ref"]},
            "level_note": c["note"],
            "technique": c["technique"],
        })
    man = {
        "version": 1,
        "setup_cmd": "./setup.sh",
        "hooks": {
            "guard": "verif",
            "enable": "go build tag: checks compile /repo through `go test -c -tags verif` of /verif/harness (replace github.com/frankkopp/FrankyGo => /repo)",
            "baseline_off_cmd": "cd /repo && GOFLAGS=-mod=mod GOPROXY=off go test -json -vet=off -count=1 -timeout 25m ./...",
            "source_commits": json.load(open(os.path.join(ROOT, "tools", "hook_commits.json"))) if os.path.exists(os.path.join(ROOT, "tools", "hook_commits.json")) else [],
            "add_only": True,
        },
        "engines": [{"name": "harness", "path": "/verif/harness", "serves_properties": sorted(CLAIMED), "kind_free_text": "Go module (rapid v1.3.0 property-based tests, native go fuzz targets, exhaustive enumerations) with an independent chess rules oracle; driven by /verif/check"}],
        "checks": checks,
        "notes": "All checks: ./check <ID> --tier quick|thorough; exit 0/1/2 = held / unlisted violation / infrastructure-inconclusive. Known findings: /verif/KNOWN_FINDINGS.txt.",
        "not_applicable": [{"property_id": p, "reason": NOT_YET} for p in ALL if p not in CLAIMED],
    }
    json.dump(man, open(os.path.join(ROOT, "MANIFEST.json"), "w"), indent=1)
    print("MANIFEST.json written:", len(checks), "checks")

if __name__ == "__main__":
    main()
