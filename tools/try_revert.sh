#!/bin/bash
# usage: tools/try_revert.sh "<commit subject grep>" <ID> [seed] [tier]
# Reverts one fix commit in an isolated scratch copy (never in /repo) and runs the check there.
C=$(git -C /repo log --format='%h %s' | grep -- "$1" | head -1 | cut -d' ' -f1)
[ -n "$C" ] || { echo "no commit matching $1"; exit 2; }
D=/tmp/tryrevert.$$
/verif/tools/scratch_copy.sh $D > /dev/null || exit 2
trap "git -C /repo worktree remove --force $D/repo; rm -rf $D" EXIT
git -C /repo show $C > $D/fix.diff
git -C $D/repo apply -R $D/fix.diff || { echo "cannot revert $C cleanly"; exit 2; }
cd $D/verif && VERIF_SEED=${3:-1} ./check $2 --tier ${4:-quick} > $D/out.txt 2>&1
echo "exit=$?"
grep -v "^  check" $D/out.txt | cut -c1-300 | head -8
