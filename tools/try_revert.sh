#!/bin/sh
# usage: tools/try_revert.sh "<commit subject grep>" <ID> [seed]   -- reverts a fix commit in the working tree, runs the quick check, restores
set -e
C=$(git -C /repo log --format='%h %s' | grep -- "$1" | head -1 | cut -d' ' -f1)
[ -n "$C" ] || { echo "no commit matching $1"; exit 2; }
git -C /repo diff --quiet || { echo "/repo has uncommitted changes"; exit 2; }
git -C /repo show $C | git -C /repo apply -R
set +e
cd /verif && VERIF_SEED=${3:-1} ./check $2 | grep -v "^  check" | cut -c1-300 | head -8
echo "exit=$?"
git -C /repo checkout -- . 
