#!/bin/bash
# Runs every stored seeded change against the quick command of its property (isolated scratch copies, /repo untouched).
# usage: tools/seeded_all.sh [parallel] ; result table in seeded/RESULTS.txt
P=${1:-3}
cd /verif
run_one() {
  n=$1; id=${n:0:3}
  cw=$(python3 -c "import json;print(json.load(open('/verif/seeded/$n/meta.json')).get('check_with',''))")
  [ -n "$cw" ] && id=$cw
  ex=$(python3 -c "import json;print(json.load(open('/verif/seeded/$n/meta.json')).get('expected',''))")
  out=$(/verif/tools/seeded_check.sh /verif/seeded/$n/patch.diff $id quick ${VERIF_SEED:-1} 2>&1)
  rc=$(echo "$out" | grep -o 'check-exit=[0-9]*' | cut -d= -f2)
  sig=$(echo "$out" | grep -m1 -E '^  C[0-9]{2}/' | tr -d ' ')
  echo "$n check=$id exit=$rc $sig $ex"
}
export -f run_one
ls seeded | grep -E '^C[0-9]{2}' | grep -E "${ONLY:-.}" | xargs -P $P -I{} bash -c 'run_one {}' | sort > seeded/RESULTS.txt
cat seeded/RESULTS.txt
