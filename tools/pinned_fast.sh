#!/bin/bash
# Runs exactly the 231 pinned stable tests (BASELINE.json stable_pass), package by package with -run '^(names)$',
# against a stored seeded change (scratch worktree of /repo HEAD + patch).  Faster than the whole suite, which
# also runs long tests that are not in the pinned list.   usage: tools/pinned_fast.sh <name under /verif/seeded>
N=$1
export GOFLAGS=-mod=mod GOPROXY=off GOSUMDB=off GOTOOLCHAIN=local
WT=/tmp/pinfast.$N.$$
git -C /repo worktree add -q --detach $WT HEAD || exit 2
trap "git -C /repo worktree remove --force $WT; rm -f $WT.json" EXIT
(git -C $WT apply /verif/seeded/$N/patch.diff 2>/dev/null || git -C $WT apply --3way /verif/seeded/$N/patch.diff >/dev/null 2>&1) || { echo "patch does not apply" > /verif/seeded/$N/suite_result.txt; exit 2; }
cd $WT
python3 - > $WT.cmds <<'PY'
import json,collections
b=json.load(open("/root/.vp/BASELINE.json"))
pk=collections.defaultdict(list)
for t in b["stable_pass"]:
    p,n=t.split("::"); pk[p].append(n)
for p,ns in pk.items():
    print(p.replace("github.com/frankkopp/FrankyGo","."), "^(" + "|".join(sorted(ns)) + ")$")
PY
: > $WT.json
while read pkg rx; do
  go test -json -vet=off -count=1 -timeout 25m -run "$rx" $pkg >> $WT.json 2>/dev/null
done < $WT.cmds
python3 - "$WT.json" > /verif/seeded/$N/suite_result.txt <<'PY'
import json,sys
res={}
for line in open(sys.argv[1]):
    try: e=json.loads(line)
    except Exception: continue
    if e.get("Test") and e.get("Action") in ("pass","fail","skip"):
        res[e["Package"]+"::"+e["Test"]]=e["Action"]
b=json.load(open("/root/.vp/BASELINE.json"))
bad=[t for t in b["stable_pass"] if res.get(t)!="pass"]
print("the pinned stable tests (run by name, package by package) with this patch applied to /repo HEAD: %d of %d pass" % (len(b["stable_pass"])-len(bad), len(b["stable_pass"])))
for t in bad: print("  NOT PASSING:",t,res.get(t))
PY
rm -f $WT.cmds
head -3 /verif/seeded/$N/suite_result.txt
