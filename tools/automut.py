#!/usr/bin/env python3
"""Automatic line-level mutants as an additional sensitivity measurement (besides the hand-written mutants and
the sub-agent seeded changes).

  tools/automut.py gen  [seed]            -> tools/mutants/auto.json  (deterministic sample of mutants per file)
  tools/automut.py run  <slice> <slices>  (inside a scratch copy made by tools/scratch_copy.sh)
                                          -> tools/mutants/auto_results.<slice>.jsonl

A mutant is (file, line number, old line, new line).  For each mutant the runner applies it to the scratch
worktree, builds the engine (discarded when it does not compile), runs the quick commands of the properties
mapped to the file until one reports a violation ("killed by <ID>"), and, if none does, runs the unit tests
of the file's package ("survived the checks; unit tests: pass/fail").  Survivors are analysed by hand
(equivalent mutant / outside every listed property / real gap), see tools/mutants/auto_results.md."""
import json, os, random, re, subprocess, sys, time

ROOT = os.path.dirname(os.path.dirname(os.path.abspath(__file__)))
REPO = open(os.path.join(ROOT, ".repo_dir")).read().strip() if os.path.exists(os.path.join(ROOT, ".repo_dir")) else "/repo"

# file -> (properties whose quick command is run, number of mutants sampled)
TARGETS = {
    "internal/position/position.go": (["C02", "C03", "C04", "C10", "C09", "C01"], 34),
    "internal/movegen/movegen.go": (["C08", "C01", "C17"], 34),
    "internal/attacks/attacks.go": (["C09"], 10),
    "internal/transpositiontable/tt.go": (["C11"], 12),
    "internal/evaluator/evaluator.go": (["C15"], 12),
    "internal/types/move.go": (["C17"], 6),
    "internal/types/bitboard.go": (["C18", "C01"], 10),
    "internal/types/square.go": (["C18", "C17"], 4),
    "internal/openingbook/openingbook.go": (["C19", "C20"], 14),
    "internal/search/alphabeta.go": (["C07", "C05", "C06"], 24),
    "internal/search/search.go": (["C13", "C05", "C14", "C12"], 20),
    "internal/uci/uci.go": (["C12", "C16", "C13"], 14),
}

OPS = [
    (r"==", "!="), (r"!=", "=="), (r"<=", "<"), (r">=", ">"), (r" < ", " <= "), (r" > ", " >= "),
    (r"&&", "||"), (r"\|\|", "&&"), (r"\+\+", "--"), (r" \+= ", " -= "), (r" \+ 1\b", " - 1"), (r" - 1\b", " + 1"),
    (r"\btrue\b", "false"), (r"\bfalse\b", "true"), (r"\bNorth\b", "South"), (r"\bSouth\b", "North"),
    (r"\bEast\b", "West"), (r"\bWest\b", "East"), (r"\bWhite\b", "Black"), (r"\bBlack\b", "White"),
    (r"\|= ", "&= "), (r"\bif !", "if "), (r"^\s*continue$", "CONTINUE"), (r"\bmax\(", "min("), (r"\bmin\(", "max("),
]
SKIP = re.compile(r"^\s*//|log\.|\.log\b|Sprintf|Printf|assert\.|verifEnabled|VerifPoint|String\(\)|^\s*import|^\s*package|^\s*func |^\s*\}|^\s*case .*:$|fmt\.|Debug|Info\(|Warning|panic\(|statistics\.")


def gen(seed):
    rnd = random.Random(seed)
    out = []
    for f, (props, n) in TARGETS.items():
        lines = open(os.path.join("/repo", f)).read().split("\n")
        cands = []
        in_block_comment = False
        for i, l in enumerate(lines):
            if "/*" in l:
                in_block_comment = True
            if in_block_comment:
                if "*/" in l:
                    in_block_comment = False
                continue
            if SKIP.search(l):
                continue
            code = l.split("//")[0]
            for k, (pat, rep) in enumerate(OPS):
                for m in re.finditer(pat, code):
                    if rep == "CONTINUE":
                        new = re.sub(r"continue", "_ = 0 // continue removed", l)
                    else:
                        new = code[:m.start()] + rep + code[m.end():]
                    cands.append((i + 1, l, new, k))
        rnd.shuffle(cands)
        seen = set()
        picked = 0
        for (ln, old, new, k) in cands:
            if ln in seen:
                continue
            seen.add(ln)
            out.append({"id": "%s:%d:%d" % (os.path.basename(f), ln, k), "file": f, "line": ln, "old": old, "new": new, "properties": props})
            picked += 1
            if picked >= n:
                break
    json.dump(out, open(os.path.join(ROOT, "tools", "mutants", os.environ.get("AUTOMUT_FILE", "auto.json")), "w"), indent=1)
    print(len(out), "mutants written")


def sh(cmd, cwd, timeout=None, env=None):
    e = dict(os.environ, GOFLAGS="-mod=mod", GOPROXY="off", GOSUMDB="off", GOTOOLCHAIN="local")
    if env:
        e.update(env)
    try:
        return subprocess.run(cmd, cwd=cwd, env=e, capture_output=True, text=True, timeout=timeout)
    except subprocess.TimeoutExpired:
        class R:
            returncode = 124
            stdout = ""
            stderr = "timeout"
        return R()


def run(sl, nsl):
    assert REPO != "/repo", "run inside a scratch copy only"
    ms = json.load(open(os.path.join(ROOT, "tools", "mutants", os.environ.get("AUTOMUT_FILE", "auto.json"))))
    outp = "/verif/tools/mutants/auto_results.%d.jsonl" % sl
    done = set()
    if os.path.exists(outp):
        for l in open(outp):
            done.add(json.loads(l)["id"])
    for idx, m in enumerate(ms):
        if idx % nsl != sl or m["id"] in done:
            continue
        path = os.path.join(REPO, m["file"])
        lines = open(path).read().split("\n")
        res = dict(m)
        if lines[m["line"] - 1] != m["old"]:
            res["result"] = "stale"
        else:
            lines[m["line"] - 1] = m["new"]
            open(path, "w").write("\n".join(lines))
            try:
                b = sh(["go", "build", "./..."], REPO, 600)
                b2 = sh(["go", "vet", "-tags", "verif", "./" + os.path.dirname(m["file"]) + "/"], REPO, 600) if b.returncode == 0 else b
                if b.returncode != 0:
                    res["result"] = "does-not-compile"
                else:
                    res["result"] = "survived"
                    res["checks"] = {}
                    for pid in m["properties"] + [x for x in EXTRA.get(m["file"], []) if x not in m["properties"]]:
                        t0 = time.time()
                        p = sh(["./check", pid, "--tier", "quick"], ROOT, 1500, {"VERIF_SEED": "1"})
                        sig = ""
                        for line in p.stdout.splitlines():
                            if re.match(r"^  C\d\d/", line):
                                sig = line.strip()
                                break
                        res["checks"][pid] = {"exit": p.returncode, "s": round(time.time() - t0, 1), "sig": sig}
                        if p.returncode == 1:
                            res["result"] = "killed"
                            res["killed_by"] = pid
                            break
                    if res["result"] == "survived":
                        t0 = time.time()
                        u = sh(["go", "test", "-vet=off", "-count=1", "-short", "-timeout", "15m", "-skip", "TestTimingTTSize|TestProcessingPGNCacheLarge|TestProcessingPGNLarge|TestProcessingSimple$|TestReadingFile|TestBookMove|TestMoveArrayPushBack", "./" + os.path.dirname(m["file"]) + "/"], REPO, 1200)
                        res["unit_tests"] = {"exit": u.returncode, "s": round(time.time() - t0, 1), "tail": (u.stdout or "")[-400:]}
            finally:
                subprocess.run(["git", "-C", REPO, "checkout", "--", "."])
        open(outp, "a").write(json.dumps(res) + "\n")
        print(m["id"], res["result"], res.get("killed_by", ""), flush=True)


# second pass: survivors are run against further properties that also observe the file
EXTRA = {
    "internal/position/position.go": ["C16", "C08", "C15", "C06"],
    "internal/attacks/attacks.go": ["C15"],
    "internal/movegen/movegen.go": ["C09", "C07", "C19"],
    "internal/types/bitboard.go": ["C09", "C08"],
    "internal/types/move.go": ["C11", "C08"],
    "internal/types/square.go": ["C01"],
    "internal/transpositiontable/tt.go": ["C05"],
    "internal/evaluator/evaluator.go": ["C06"],
    "internal/search/alphabeta.go": ["C13", "C12"],
    "internal/search/search.go": ["C07", "C06", "C19"],
    "internal/uci/uci.go": ["C14", "C05"],
    "internal/openingbook/openingbook.go": [],
}


def rerun(sl, nsl):
    assert REPO != "/repo", "run inside a scratch copy only"
    import glob
    rs = []
    for f in sorted(glob.glob("/verif/tools/mutants/auto_results.[0-9]*.jsonl")):
        rs += [json.loads(l) for l in open(f)]
    outp = "/verif/tools/mutants/auto_rerun.%d.jsonl" % sl
    k = 0
    for r in rs:
        if r["result"] != "survived" or not EXTRA.get(r["file"]):
            continue
        k += 1
        if k % nsl != sl:
            continue
        path = os.path.join(REPO, r["file"])
        lines = open(path).read().split("\n")
        if lines[r["line"] - 1] != r["old"]:
            continue
        lines[r["line"] - 1] = r["new"]
        open(path, "w").write("\n".join(lines))
        res = {"id": r["id"], "file": r["file"], "line": r["line"], "old": r["old"], "new": r["new"], "result": "survived", "checks": {}}
        try:
            for pid in EXTRA[r["file"]]:
                t0 = time.time()
                p = sh(["./check", pid, "--tier", "quick"], ROOT, 1500, {"VERIF_SEED": "1"})
                sig = ""
                for line in p.stdout.splitlines():
                    if re.match(r"^  C\d\d/", line):
                        sig = line.strip()
                        break
                res["checks"][pid] = {"exit": p.returncode, "s": round(time.time() - t0, 1), "sig": sig}
                if p.returncode == 1:
                    res["result"] = "killed"
                    res["killed_by"] = pid
                    break
        finally:
            subprocess.run(["git", "-C", REPO, "checkout", "--", "."])
        open(outp, "a").write(json.dumps(res) + "\n")
        print(r["id"], res["result"], res.get("killed_by", ""), flush=True)


if __name__ == "__main__":
    if sys.argv[1] == "gen":
        gen(int(sys.argv[2]) if len(sys.argv) > 2 else 1)
    elif sys.argv[1] == "rerun":
        rerun(int(sys.argv[2]), int(sys.argv[3]))
    else:
        run(int(sys.argv[2]), int(sys.argv[3]))
