#!/bin/sh
# Offline setup: build the harness once (warms the Go build cache) and validate the oracle.
set -e
cd "$(dirname "$0")/harness"
export GOFLAGS=-mod=mod GOPROXY=off GOSUMDB=off GOTOOLCHAIN=local
mkdir -p bin out ../replays ../evidence
go vet ./refchess ./hx >/dev/null 2>&1 || true
go test -count=1 ./refchess
go test -c -tags verif -o bin/props.setup.test ./props
# warm the build cache of the race-detector build as well (C14 runs a -race binary)
go test -c -race -tags verif -o bin/props.setup.race.test ./props
rm -f bin/props.setup.test bin/props.setup.race.test
echo "setup ok"
